"""C13 — voxel encodings are interchangeable and run-length codecs lossless
(trimesh/voxel/runlength.py, encoding.py, base.py, transforms.py, trimesh/exchange/binvox.py).

One case = one function / one read API on one input, so that a failing function never hides another one."""

import io
import itertools
import os
import warnings

import numpy as np
from hypothesis import strategies as st

from trimesh.exchange import binvox as bv
from trimesh.voxel import encoding as enc
from trimesh.voxel import runlength as rl
from trimesh.voxel.base import VoxelGrid

from ..core import ASSUMPTIONS, REPO, REQUIRED_CLASSES, RULES, Violation, body, check, subcheck
from ..gen import matrices as gm
from ..oracle import c13_runlength_ref as ref

RULES["C13"] = (
    "runlength.py: ENUMERATED boolean sequences of length 0..11 and sequences over {0,1,2,5} of length <=5 (<=6 thorough), "
    "each also inflated by np.repeat(seq,k), k in {254,255,256,300,510,511} (and 65535/65536 for uint16) so that runs sit on "
    "both sides of the count maximum; count dtypes uint8,int8,uint16,int64; encoded inputs built by the pure-python reference "
    "codec in canonical, non-merged (zero-length runs), odd-length and python-list form; one case per function x input form x "
    "index-set form (sorted/unsorted/repeated/list/ndarray/empty), every result compared with the docstring's dense expression. "
    "encoding.py: every boolean array of shapes up to (2,3,2) (all 4096) and int-valued arrays x {Dense,Sparse,RunLength,"
    "BinaryRunLength} x every read API; lazy views (flip any axes, transpose any perm, reshape, flat) composed to depth 2 "
    "enumerated and depth 3 sampled (enumerated in thorough) against np.flip/np.transpose/np.reshape; long-run 1-D encodings "
    "with narrow count dtypes. Value arrays are boolean, non-negative integer, SIGNED integer and float (negative entries), including "
    "every array over {-1,0,1} of 4 cells and arrays whose non-zero entries sum to zero, for Dense/Sparse/RunLength (run-length: "
    "integers only, as documented) and their lazy views. VoxelGrid: Hypothesis matrices of every class x index sets inside/outside; binvox export/load "
    "against an independent header+RLE reader/writer. Non-trivial: the represented array holds at least two distinct values "
    "and a run (C order) of length >= 2."
)
ASSUMPTIONS["C13"] = [
    "numpy (np.repeat, np.flip, np.transpose, np.reshape, fancy indexing) is the reference for the represented array",
    "a run-length result is judged by what it decodes to and by its counts fitting the requested dtype, not by being the "
    "shortest encoding (zero-length runs such as dense_to_rle's [v,255,v,0] are counted in the histogram, not flagged)",
    "get_value takes a (ndims,) integer ndarray, gather_nd an (m,ndims) integer ndarray, mask a boolean ndarray of the "
    "encoding's shape; sparse_indices of a 1-D encoding may be (m,) or (m,1); explicitly stored zero values are ignored",
    "stripped of an all-zero encoding only has to be empty with padding summing to the shape",
    "binvox round trip is demanded for positive scale with uniform scale*(shape-1) (what the exporter documents); "
    "negative scale is checked separately through the filled points",
    "VoxelGrid index<->point round trip uses |index| <= 40, scale in [1e-2,1e2], |translation| <= 1e3 and offsets of at "
    "most 0.3 cell so that floating point error (< 1e-9 cell) cannot reach the rounding boundary at 0.5",
]

TRIMESH_DIR = os.path.join(REPO, "trimesh") + os.sep
ANCHOR_FILES = ("runlength.py", "encoding.py", "base.py", "transforms.py", "ops.py", "binvox.py")
DTYPES = ["uint8", "int8", "uint16", "int64"]
KS = [254, 255, 256, 300, 510, 511]
IDENTITY_TOL = 1e-8  # voxel.transforms.Transform.is_identity / transformations.transform_points skip matrices this close to eye(4)


# ------------------------------------------------------------------------------------------ helpers


def _tm_frame(exc):
    """(file, qualname) of the innermost frame inside the anchored trimesh files (else inside trimesh)."""
    tb = exc.__traceback__
    anchored = None
    anyt = None
    while tb is not None:
        code = tb.tb_frame.f_code
        fn = os.path.realpath(code.co_filename)
        if fn.startswith(TRIMESH_DIR):
            name = (os.path.basename(fn), getattr(code, "co_qualname", code.co_name))
            anyt = name
            if name[0] in ANCHOR_FILES:
                anchored = name
        tb = tb.tb_next
    return anchored or anyt


def lib(where, fn, *a, tail="", **k):
    """Call into trimesh. An exception raised below trimesh becomes a Violation whose signature is the root cause
    as far as it can be told mechanically: exception type + innermost function of the anchored files (the same
    defect reached through different APIs / sub-checks is one bucket); `where` only goes into the message."""
    try:
        with warnings.catch_warnings():
            warnings.simplefilter("ignore")
            with np.errstate(all="ignore"):
                return fn(*a, **k)
    except Violation:
        raise
    except Exception as e:  # noqa
        fr = _tm_frame(e)
        if fr is None:
            raise
        raise Violation(f"C13|exc|{type(e).__name__}|{fr[0]}:{fr[1]}", f"[{where}{tail}] {type(e).__name__}: {str(e)[:300]}") from None


def _tolist(x):
    return np.asarray(x).tolist()


def _short(x, n=40):
    s = repr(x)
    return s if len(s) <= 400 else s[:400] + "..."


def _nontrivial(flat_list):
    return len(set(flat_list)) >= 2 and any(a == b for a, b in zip(flat_list, flat_list[1:]))


# ------------------------------------------------------------------------------------------ C13.rl


def _positions(n, k, nseq, mx):
    """Dense positions worth gathering: everything when short, else both sides of every run and count boundary."""
    if n <= 24:
        return list(range(n))
    p = {0, 1, n // 2, n - 2, n - 1}
    for j in range(nseq + 1):
        for d in (-1, 0, 1):
            p.add(j * k + d)
    for m in (1, 2, 3):
        for d in (-1, 0, 1):
            p.add(m * mx + d)
    return sorted(x for x in p if 0 <= x < n)


def _index_variant(iv, P):
    if iv == "arr_sorted":
        return np.array(P, dtype=np.int64)
    if iv == "arr_sorted_rep":
        return np.array(sorted(P + P[::2]), dtype=np.int64)
    if iv == "arr_unsorted":
        return np.array(P[::-1] + P[::2], dtype=np.int64)
    if iv == "arr_single":
        return np.array(P[len(P) // 2 : len(P) // 2 + 1], dtype=np.int64)
    if iv == "arr_empty":
        return np.array([], dtype=np.int64)
    if iv == "list_sorted":
        return sorted(P + P[::3])
    if iv == "list_unsorted":
        return P[::-1] + P[::2]
    if iv == "list_empty":
        return []
    if iv == "arr_int32_unsorted":
        return np.array(P[::-1] + P[::2], dtype=np.int32)
    raise ValueError(iv)


def _masks(n):
    if n <= 6:
        return [list(m) for m in itertools.product([False, True], repeat=n)]
    out = [[True] * n, [False] * n, [i % 2 == 0 for i in range(n)], [(i * 7 + i // 5) % 3 == 0 for i in range(n)]]
    if n <= 64:
        out += [[i % 2 == 1 for i in range(n)], [i < n // 2 for i in range(n)], [(i * i + 3 * i) % 5 < 2 for i in range(n)], [i >= n - 1 for i in range(n)]]
    return out


@body("C13.rl")
def b_rl(case, ctx):
    seq, k, dtn, fn, form, isbool = case["seq"], case["k"], case["dt"], case["fn"], case["form"], case["bool"]
    dt = np.dtype(dtn)
    mx = int(np.iinfo(dt).max)
    dt2n = case.get("dt2", dtn)
    dt2 = np.dtype(dt2n)
    mx2 = int(np.iinfo(dt2).max)
    seq = [bool(v) for v in seq] if isbool else [int(v) for v in seq]
    base = np.array(seq, dtype=bool if isbool else np.int64)
    dense = np.repeat(base, k)
    n = int(dense.size)
    rs = [(v, c * k) for v, c in ref.runs(seq)]
    longest = max([c for _, c in rs] + [0])
    dl = [v for v, c in rs for _ in range(c)]
    binary = all(v in (0, 1) for v in seq)

    # classes
    in_narrow = form in ("arr", "nc", "odd") and n > mx  # accumulating over a narrow input array can exceed its dtype
    if n == 0:
        lc = "empty"
    else:
        # long: a narrow input array whose total length exceeds its dtype, or a run that has to be split
        lc = "long" if (in_narrow or longest > min(mx, mx2)) else "plain"
    runcls = "none" if n == 0 else ("<max" if longest < mx else "=max" if longest == mx else ("k*max" if longest % mx == 0 else ">max"))
    ctx.note(nontrivial=_nontrivial(seq) or (len(set(seq)) >= 2 and k >= 2), cls=[f"rl:{dtn}:run{runcls}", f"rl:form={form}"] + (["rl:signed_values"] if any(v < 0 for v in seq) else []))

    iv = case.get("iv")
    kc = f"form={form}" + (f",idx={iv}" if iv else "")

    def sg(clause):
        return f"C13.rl|{fn}|{clause}|{lc}"

    def call(f, *a, **kw):
        return lib(f"C13.rl|{fn}", f, *a, tail=f"|{kc}|{lc}", **kw)

    # encoded inputs by the reference codec
    def mk(lst, as_dt=dt):
        if form == "list":
            return [int(x) for x in lst]
        return np.array([int(x) for x in lst], dtype=as_dt)

    def rle_in():
        R = ref.rle_encode_runs(rs, mx)
        if form == "nc":
            R = ref.rle_noncanonical(R)
        return mk(R)

    def brle_in():
        B = ref.brle_encode_runs(rs, mx, pad_even=(form != "odd"))
        if form == "nc":
            B = ref.brle_noncanonical(B)
        return mk(B)

    def ok_rle(out, cmax=None, want=None):
        a = np.asarray(out)
        check(a.ndim == 1 and a.size % 2 == 0, sg("shape"), lambda: f"seq={seq} k={k}: {_short(out)}")
        lst = a.tolist()
        if cmax is not None:
            check(all(0 <= c <= cmax for c in lst[1::2]), sg("count_range"), lambda: f"seq={seq} k={k} max={cmax}: {_short(lst)}")
        dec = ref.rle_decode(lst)
        check(dec is not None and dec == (dl if want is None else want), sg("decode"), lambda: f"seq={seq} k={k} dt={dtn}/{dt2n}: result {_short(lst)} does not decode to the dense input")
        if any(c == 0 for c in lst[1::2]):
            ctx.note(cls="rl:zero_length_run_in_rle_output")

    def ok_brle(out, cmax=None, want=None):
        a = np.asarray(out)
        check(a.ndim == 1, sg("shape"), lambda: f"seq={seq} k={k}: {_short(out)}")
        lst = a.tolist()
        if cmax is not None:
            check(all(0 <= c <= cmax for c in lst), sg("count_range"), lambda: f"seq={seq} k={k} max={cmax}: {_short(lst)}")
        dec = ref.brle_decode(lst)
        check(dec is not None and dec == (dl if want is None else want), sg("decode"), lambda: f"seq={seq} k={k} dt={dtn}/{dt2n}: result {_short(lst)} does not decode to the dense input")

    # ---------------- encoders
    if fn == "dense_to_rle":
        out = call(rl.dense_to_rle, dense, dtype=dt)
        ok_rle(out, mx)
    elif fn == "dense_to_brle":
        out = call(rl.dense_to_brle, dense, dtype=dt)
        ok_brle(out, mx)
        check(np.asarray(out).dtype == dt, sg("dtype"), lambda: f"documented: array of dtype `dtype`; got {np.asarray(out).dtype} want {dt}")
    # ---------------- decoders
    elif fn == "rle_to_dense":
        R = rle_in()
        for dd in (np.int64, None) + ((bool,) if isbool else ()):
            out = call(rl.rle_to_dense, R, dtype=dd)
            check(np.asarray(out).ndim == 1 and _tolist(out) == dl, sg("value"), lambda: f"rle={_short(_tolist(R))} dtype={dd}: {_short(_tolist(out))}")
    elif fn == "brle_to_dense":
        B = brle_in()
        out = call(rl.brle_to_dense, B)
        check(np.asarray(out).dtype == bool and _tolist(out) == dl, sg("value"), lambda: f"brle={_short(_tolist(B))}: {_short(_tolist(out))}")
    elif fn == "brle_to_dense_vals":
        B = brle_in()
        out = call(rl.brle_to_dense, B, vals=[7, 9])
        check(_tolist(out) == [9 if v else 7 for v in dl], sg("value"), lambda: f"documented brle_to_dense([2,3,1,0],[7,9]) == [7,7,9,9,9,7]; brle={_short(_tolist(B))} gave {_short(_tolist(out))}")
    # ---------------- converters
    elif fn == "rle_to_brle":
        R = rle_in()
        if not binary:
            try:
                out = call(rl.rle_to_brle, R)
            except Violation as v:
                if v.sig == "C13|exc|ValueError|runlength.py:rle_to_brle":
                    return  # documented ValueError for values other than 0/1
                raise
            check(False, sg("no_error"), f"values other than 0/1 accepted: {_short(_tolist(R))} -> {_short(out)}")
        out = call(rl.rle_to_brle, R)
        check(isinstance(out, list), sg("type"), f"documented: a list if dtype is None; got {type(out).__name__}")
        ok_brle(out)
    elif fn == "rle_to_brle_dt":
        out = call(rl.rle_to_brle, rle_in(), dtype=dt2)
        ok_brle(out, mx2)
    elif fn == "brle_to_rle":
        out = call(rl.brle_to_rle, brle_in(), dtype=dt2)
        ok_rle(out, mx2)
    elif fn == "rle_to_rle":
        out = call(rl.rle_to_rle, rle_in(), dtype=dt2)
        ok_rle(out, mx2)
    elif fn == "brle_to_brle":
        out = call(rl.brle_to_brle, brle_in(), dtype=dt2)
        ok_brle(out, mx2)
    # ---------------- split / merge
    elif fn == "split_long_rle_lengths":
        values = [v for v, _ in rs]
        lengths = [c for _, c in rs]
        if form == "arr":
            values, lengths = np.array(values, dtype=base.dtype), np.array(lengths, dtype=np.int64)
        v2, l2 = call(rl.split_long_rle_lengths, values, lengths, dtype=dt)
        check(len(v2) == len(l2), sg("shape"), f"{len(v2)} values, {len(l2)} lengths")
        check(np.asarray(l2).dtype == dt or n == 0, sg("dtype"), lambda: f"documented: lengths of type dtype; got {np.asarray(l2).dtype}")
        ok_rle([x for pair in zip(_tolist(v2), _tolist(l2)) for x in pair], mx)
    elif fn == "split_long_brle_lengths":
        lengths = ref.brle_encode_runs(rs, None)
        if form == "arr":
            lengths = np.array(lengths, dtype=np.int64)
        out = call(rl.split_long_brle_lengths, lengths, dtype=dt)
        ok_brle(out, mx)
    elif fn == "merge_rle_lengths":
        R = ref.rle_encode_runs(rs, mx)
        if form == "nc":
            R = ref.rle_noncanonical(R)
        values, lengths = R[::2], mk(R[1::2])
        v2, l2 = call(rl.merge_rle_lengths, values, lengths)
        check(len(v2) == len(l2), sg("shape"), f"{len(v2)} values, {len(l2)} lengths")
        ok_rle([x for pair in zip(_tolist(v2), _tolist(l2)) for x in pair] if len(v2) else [])
        check([int(x) for x in l2] == [c for _, c in rs], sg("inverse"), lambda: f"not the inverse of split_long_rle_lengths: {_short(_tolist(l2))} vs runs {[c for _, c in rs]}")
    elif fn == "merge_brle_lengths":
        out = call(rl.merge_brle_lengths, brle_in())
        ok_brle(out)
    # ---------------- length / reverse / not
    elif fn == "rle_length":
        out = call(rl.rle_length, rle_in())
        check(int(out) == n, sg("value"), f"{out} != {n}")
    elif fn == "brle_length":
        out = call(rl.brle_length, brle_in())
        check(int(out) == n, sg("value"), f"{out} != {n}")
    elif fn == "rle_reverse":
        R = rle_in()
        out = call(rl.rle_reverse, R)
        ok_rle(out, want=dl[::-1])
    elif fn == "brle_reverse":
        B = brle_in()
        out = call(rl.brle_reverse, B)
        ok_brle(out, want=dl[::-1])
    elif fn == "brle_logical_not":
        B = brle_in()
        out = call(rl.brle_logical_not, B)
        ok_brle(out, want=[not v for v in dl])
    # ---------------- strip
    elif fn in ("rle_strip", "brle_strip"):
        lead = next((i for i, v in enumerate(dl) if v), n)
        trail = next((i for i, v in enumerate(dl[::-1]) if v), n)
        if fn == "rle_strip":
            R = rle_in()
            res = call(rl.rle_strip, R)
        else:
            R = brle_in()
            res = call(rl.brle_strip, R)
        check(isinstance(res, tuple) and len(res) == 2 and len(res[1]) == 2, sg("shape"), _short(res))
        data, pad = res
        dec = ref.rle_decode(_tolist(data)) if fn == "rle_strip" else ref.brle_decode(_tolist(data))
        if lead == n:
            check(dec == [], sg("data_allzero"), lambda: f"input {_short(_tolist(R))}: stripped {_short(_tolist(data))} is not empty")
        else:
            check(dec is not None and dec == dl[lead : n - trail], sg("data"), lambda: f"input {_short(_tolist(R))}: stripped {_short(_tolist(data))}")
            check((int(pad[0]), int(pad[1])) == (lead, trail), sg("padding"), lambda: f"input {_short(_tolist(R))}: padding {pad} want {(lead, trail)}")
    # ---------------- sparse
    elif fn == "rle_to_sparse":
        R = rle_in()
        res = call(rl.rle_to_sparse, R)
        check(isinstance(res, tuple) and len(res) == 2, sg("shape"), _short(res))
        nz = [i for i, v in enumerate(dl) if v]
        check(_tolist(res[0]) == nz, sg("indices"), lambda: f"input {_short(_tolist(R))}: {_short(_tolist(res[0]))} want {_short(nz)}")
        check(_tolist(res[1]) == [dl[i] for i in nz], sg("values"), lambda: f"input {_short(_tolist(R))}: {_short(_tolist(res[1]))}")
    elif fn == "brle_to_sparse":
        B = brle_in()
        out = call(rl.brle_to_sparse, B)
        nz = [i for i, v in enumerate(dl) if v]
        check(_tolist(out) == nz, sg("indices"), lambda: f"input {_short(_tolist(B))}: {_short(_tolist(out))} want {_short(nz)}")
    # ---------------- gather
    elif fn in ("rle_gather_1d", "brle_gather_1d", "rle_gatherer_1d", "brle_gatherer_1d", "sorted_rle_gather_1d", "sorted_brle_gather_1d"):
        P = _positions(n, k, len(seq), mx)
        idx = _index_variant(iv, P)
        want = [dl[int(i)] for i in idx]
        D = rle_in() if "rle_" in fn and "brle_" not in fn else brle_in()
        if fn == "rle_gather_1d":
            out = call(rl.rle_gather_1d, D, idx)
        elif fn == "brle_gather_1d":
            out = call(rl.brle_gather_1d, D, idx)
        elif fn == "rle_gatherer_1d":
            out = call(lambda: rl.rle_gatherer_1d(idx)(D))
        elif fn == "brle_gatherer_1d":
            out = call(lambda: rl.brle_gatherer_1d(idx)(D))
        elif fn == "sorted_rle_gather_1d":
            out = call(lambda: list(rl.sorted_rle_gather_1d(D, idx)))
        else:
            out = call(lambda: list(rl.sorted_brle_gather_1d(D, idx)))
        got = _tolist(out)
        check(len(got) == len(want) and got == want, sg("value"), lambda: f"data {_short(_tolist(D))} idx[{iv}] {_short(_tolist(idx))}: {_short(got)} want {_short(want)}")
    # ---------------- mask
    elif fn in ("rle_mask", "brle_mask"):
        D = rle_in() if fn == "rle_mask" else brle_in()
        f = rl.rle_mask if fn == "rle_mask" else rl.brle_mask
        for j, m in enumerate(_masks(n)):
            want = [v for v, mm in zip(dl, m) if mm]
            marg = np.array(m, dtype=bool) if j % 2 == 0 else m
            out = call(lambda: list(f(D, marg)))
            check(_tolist(out) == want if len(want) else len(out) == 0, sg("value"), lambda: f"data {_short(_tolist(D))} mask {_short(m)}: {_short(_tolist(out))} want {_short(want)}")
    else:
        raise ValueError(fn)


RLE_FNS = ["rle_to_dense", "rle_to_brle", "rle_to_brle_dt", "rle_to_rle", "merge_rle_lengths", "rle_length", "rle_reverse", "rle_strip", "rle_to_sparse", "rle_mask"]
BRLE_FNS = ["brle_to_dense", "brle_to_dense_vals", "brle_to_rle", "brle_to_brle", "merge_brle_lengths", "brle_length", "brle_reverse", "brle_logical_not", "brle_strip", "brle_to_sparse", "brle_mask"]
GATHER_IV = ["arr_sorted", "arr_sorted_rep", "arr_unsorted", "arr_single", "arr_empty", "arr_int32_unsorted", "list_unsorted", "list_empty"]
SORTED_IV = ["arr_sorted", "arr_sorted_rep", "arr_single", "arr_empty", "list_sorted", "list_empty"]
GATHER_IV_FEW = ["arr_sorted_rep", "arr_unsorted", "list_unsorted"]
SORTED_IV_FEW = ["arr_sorted_rep", "list_sorted"]


def _rl_cases(seq, isbool, k, dtn, dt2s, forms_extra, gather_iv=None, sorted_iv=None):
    """All function cases for one (sequence, k, dtype)."""
    gather_iv = gather_iv or GATHER_IV
    sorted_iv = sorted_iv or SORTED_IV
    base = {"seq": [int(v) for v in seq], "bool": isbool, "k": k, "dt": dtn}
    binary = all(v in (0, 1) for v in seq)

    def c(fn, form="arr", **kw):
        d = dict(base, fn=fn, form=form)
        d.update(kw)
        return d

    yield c("dense_to_rle", "-")
    for form in ("arr", "list"):
        yield c("split_long_rle_lengths", form)
    rle_forms = ["arr"] + [f for f in forms_extra if f in ("list", "nc")]
    brle_forms = ["arr"] + list(forms_extra)
    for fn in RLE_FNS:
        if fn == "rle_to_brle_dt" and not binary:
            continue
        for form in rle_forms:
            if fn == "rle_to_sparse" and form == "list":
                continue  # uses rle_data.dtype: ndarray input only
            if fn in ("rle_to_brle_dt", "rle_to_rle"):
                for d2 in dt2s:
                    yield c(fn, form, dt2=d2)
            else:
                yield c(fn, form)
    for iv in gather_iv:
        yield c("rle_gather_1d", "arr", iv=iv)
        yield c("rle_gatherer_1d", "arr", iv=iv)
    for iv in sorted_iv:
        yield c("sorted_rle_gather_1d", "arr", iv=iv)
    if "list" in forms_extra:
        yield c("sorted_rle_gather_1d", "list", iv="arr_sorted_rep")
        yield c("rle_gather_1d", "nc", iv="arr_unsorted")
    if not isbool:
        return
    yield c("dense_to_brle", "-")
    for form in ("arr", "list"):
        yield c("split_long_brle_lengths", form)
    for fn in BRLE_FNS:
        for form in brle_forms:
            if fn in ("brle_to_rle", "brle_to_brle"):
                for d2 in dt2s:
                    yield c(fn, form, dt2=d2)
            else:
                yield c(fn, form)
    for iv in gather_iv:
        yield c("brle_gather_1d", "arr", iv=iv)
        yield c("brle_gatherer_1d", "arr", iv=iv)
    for iv in sorted_iv:
        yield c("sorted_brle_gather_1d", "arr", iv=iv)
    if "list" in forms_extra:
        yield c("sorted_brle_gather_1d", "list", iv="arr_sorted_rep")
        yield c("brle_gather_1d", "odd", iv="arr_unsorted")
        yield c("brle_gather_1d", "nc", iv="arr_unsorted")


def _seqs(max_bool, max_int):
    for n in range(0, max_bool + 1):
        for s in itertools.product((0, 1), repeat=n):
            yield list(s), True
    for n in range(1, max_int + 1):
        for s in itertools.product((0, 1, 2, 5), repeat=n):
            yield list(s), False


def _rl_signed():
    """Sequences over {-1, 0, 1} (signed values need a signed count dtype: values and counts share one array)."""
    for n in range(1, 5):
        for s in itertools.product((-1, 0, 1), repeat=n):
            if -1 not in s:
                continue
            for dtn in ("int8", "int64"):
                yield from _rl_cases(list(s), False, 1, dtn, [_other_dt(dtn)], ("list", "nc"), GATHER_IV_FEW, SORTED_IV_FEW)
    for s in ([-1], [-1, 1], [0, -1], [1, -1, -1]):
        for k in (127, 128, 256):
            for dtn in ("int8", "int64"):
                yield from _rl_cases(list(s), False, k, dtn, ["int8", "int64"], (), GATHER_IV_FEW, SORTED_IV_FEW)


def _other_dt(dtn):
    return "int64" if dtn != "int64" else "uint8"


def _rl_k1(max_bool_all, max_int_all, max_bool, max_int, max_forms):
    """k=1: short sequences x all four count dtypes; the longer ones with uint8 (a run of <=11 never reaches a maximum);
    python-list / non-merged / odd-length input forms for sequences up to max_forms."""
    for seq, isbool in _seqs(max_bool, max_int):
        full = len(seq) <= (max_bool_all if isbool else max_int_all)
        short = len(seq) <= max_forms
        forms = ("list", "nc", "odd") if short else ()
        for dtn in DTYPES if full else ["uint8"]:
            yield from _rl_cases(seq, isbool, 1, dtn, [_other_dt(dtn)], forms, None if short else GATHER_IV_FEW, None if short else SORTED_IV_FEW)


def _rl_inflated(max_bool, max_int):
    for seq, isbool in _seqs(max_bool, max_int):
        if not seq or (not isbool and all(v in (0, 1) for v in seq)):
            continue
        for k in KS:
            for dtn in DTYPES:
                yield from _rl_cases(seq, isbool, k, dtn, DTYPES, ())


def _rl_u16():
    for seq in ([1], [0], [0, 1], [1, 0], [1, 1, 0]):
        for k in (65535, 65536):
            for c in _rl_cases(seq, True, k, "uint16", ["uint16", "uint8"], ()):
                if c["fn"] in ("rle_mask", "brle_mask") and k == 65536:
                    continue
                yield c


def s_rl_k1(ctx):
    if ctx.tier == "quick":
        ctx.enumerate("C13.rl", _rl_k1(6, 4, 11, 5, 8), label="runlength_all_fns_bool_len<=11_int{0,1,2,5}_len<=5_k=1_(list/nonmerged/odd_forms_len<=8)")
    else:
        ctx.enumerate("C13.rl", _rl_k1(8, 5, 11, 6, 11), label="runlength_all_fns_bool_len<=11_int{0,1,2,5}_len<=6_k=1_all_forms")


def s_rl_inflated(ctx):
    if ctx.tier == "quick":
        ctx.enumerate("C13.rl", _rl_inflated(4, 2), label="runlength_all_fns_bool_len<=4_int_len<=2_x_k{254,255,256,300,510,511}_x_4dtypes")
    else:
        ctx.enumerate("C13.rl", _rl_inflated(7, 3), label="runlength_all_fns_bool_len<=7_int_len<=3_x_k{254,255,256,300,510,511}_x_4dtypes")


def s_rl_u16(ctx):
    ctx.enumerate("C13.rl", _rl_u16(), label="runlength_all_fns_uint16_boundary_k{65535,65536}")
    ctx.enumerate("C13.rl", _rl_signed(), label="runlength_rle_fns_signed_values{-1,0,1}_len<=4_int8_int64")


# ------------------------------------------------------------------------------------------ C13.enc

KINDS = ["dense", "sparse", "rle", "brle"]
# "basic" = shape/size/ndims, is_empty, sum, dense, copy checked one after the other (each with its own signature);
# they are cheap and robust, everything else is one API per case so that a failing API never hides another one
BASIC = ["shape", "is_empty", "sum", "dense", "copy"]
APIS = ["basic", "sparse", "gather_nd", "mask", "get_value", "stripped", "rld", "brld"]


def _kind_label(kind, nd):
    return {"dense": "DenseEncoding", "sparse": "SparseEncoding"}.get(kind) or (
        ("RunLengthEncoding" if kind == "rle" else "BinaryRunLengthEncoding") + ("" if nd == 1 else ".reshape")
    )


def _build_base(case, A):
    kind, edtn, how = case["kind"], case.get("edt", "int64"), case.get("how", "from_dense")
    edt = np.dtype(edtn)
    sig = f"C13.enc|build|{_kind_label(kind, A.ndim)}|{how}"
    if kind == "dense":
        return lib(sig, enc.DenseEncoding, A.copy())
    if kind == "sparse":
        return lib(sig, enc.SparseEncoding.from_dense, A.copy())
    flat = A.reshape(-1)
    vdt = bool if A.dtype == bool else np.int64  # run-length data is documented as "(n,) int": no float values
    if A.dtype.kind == "i" and (A < 0).any() and edt.kind == "u":
        edt = np.dtype("int8" if edt.itemsize == 1 else "int64")  # values and counts share one array: signed values need a signed dtype
    mx = int(np.iinfo(edt).max)
    if kind == "rle":
        if how == "from_dense":
            e = lib(sig, enc.RunLengthEncoding.from_dense, flat, dtype=vdt, encoding_dtype=edt)
        else:
            R = ref.rle_encode(flat.tolist(), mx)
            if how == "ref_nc":
                R = ref.rle_noncanonical(R)
            e = lib(sig, enc.RunLengthEncoding, np.array([int(x) for x in R], dtype=edt), dtype=vdt)
    elif kind == "brle":
        if how == "from_dense":
            e = lib(sig, enc.BinaryRunLengthEncoding.from_dense, flat, encoding_dtype=edt)
        else:
            B = ref.brle_encode(flat.tolist(), mx)
            if how == "ref_nc":
                B = ref.brle_noncanonical(B)
            e = lib(sig, enc.BinaryRunLengthEncoding, np.array(B, dtype=edt))
    else:
        raise ValueError(kind)
    if A.ndim != 1:
        e = lib(sig, e.reshape, A.shape)
    return e


def _apply_view(e, A, op):
    name, arg = op[0], (op[1] if len(op) > 1 else None)
    sig = f"C13.enc|view:{name}|{type(e).__name__}"
    if name == "flip":
        ax = arg if isinstance(arg, int) else tuple(arg)
        return lib(sig, e.flip, ax), np.flip(A, ax)
    if name == "flip_arr":  # the way export_binvox calls it
        return lib(sig, e.flip, np.array(arg, dtype=np.int64)), np.flip(A, tuple(arg))
    if name == "transpose":
        return lib(sig, e.transpose, tuple(arg)), np.transpose(A, arg)
    if name == "reshape":
        return lib(sig, e.reshape, tuple(arg)), np.reshape(A, arg)
    if name == "flat":
        return lib(sig, lambda: e.flat), A.reshape(-1)
    raise ValueError(name)


def _cells(shape):
    return np.array(list(np.ndindex(*shape)), dtype=np.int64).reshape((-1, len(shape)))


def _eval_api(api, e, A, case, label):
    """Compare one read API of encoding `e` with numpy on the represented array A."""
    if api == "basic":
        for sub in BASIC:
            _eval_api(sub, e, A, case, label)
        return
    aux = int(case.get("aux", 0))
    nd = A.ndim
    pre = f"C13.enc|{api}|{label}"

    def L(f, *a, **kw):
        return lib(pre, f, *a, **kw)

    if api == "dense":
        d = np.asarray(L(lambda: e.dense))
        check(d.shape == A.shape and np.array_equal(d, A), pre + "|value", lambda: f"dense {_short(d.tolist())} want {_short(A.tolist())}")
    elif api == "shape":
        sh = L(lambda: e.shape)
        check(tuple(int(s) for s in sh) == A.shape, pre + "|shape", f"{sh} want {A.shape}")
        check(int(L(lambda: e.size)) == A.size, pre + "|size", f"{e.size} want {A.size}")
        check(int(L(lambda: e.ndims)) == nd, pre + "|ndims", f"{e.ndims} want {nd}")
    elif api == "sum":
        s = L(lambda: e.sum)
        check(float(s) == float(A.sum()), pre + "|value", f"{s} want {A.sum()}")  # values are small integers or multiples of 0.5: exact
    elif api == "is_empty":
        s = L(lambda: e.is_empty)
        check(bool(s) == (not A.any()), pre + "|value", f"{s} want {not A.any()}")
    elif api == "sparse":
        si = np.asarray(L(lambda: e.sparse_indices))
        sv = np.asarray(L(lambda: e.sparse_values))
        want = {tuple(int(x) for x in i): A[tuple(i)].item() for i in np.argwhere(A)}
        if si.size == 0 and sv.size == 0:
            got = {}
        else:
            if si.ndim == 1 and nd == 1:
                si = si.reshape((-1, 1))
            check(si.ndim == 2 and si.shape[1] == nd, pre + "|indices_shape", f"sparse_indices shape {si.shape} for a {nd}-d array")
            check(sv.shape == (len(si),), pre + "|values_shape", f"sparse_values shape {sv.shape} for {len(si)} indices")
            got = {}
            for i, v in zip(si.tolist(), sv.tolist()):
                if not v:
                    continue
                t = tuple(int(x) for x in i)
                check(t not in got, pre + "|duplicate", f"index {t} listed twice")
                got[t] = v
        check(got == want, pre + "|set", lambda: f"filled cells {sorted(got.items())} want {sorted(want.items())} (array {_short(A.tolist())})")
    elif api == "gather_nd":
        cells = _cells(A.shape)
        var = aux % 5
        rs = np.random.RandomState(aux)
        if var == 0:
            idx, vn = cells[::-1], "multi"
        elif var == 1:
            idx, vn = cells[(aux // 5) % len(cells)][None, :], "single"
        elif var == 2:
            idx, vn = cells[:0], "empty"
        elif var == 3:
            idx, vn = cells[rs.randint(0, len(cells), size=len(cells) + 3)], "multi"
        else:
            idx, vn = cells, "multi"
        idx = np.ascontiguousarray(idx)
        keep = idx.copy()
        got = np.asarray(L(e.gather_nd, idx))
        want = A[tuple(keep.T)]
        check(got.shape == want.shape and np.array_equal(got, want), pre + "|value", lambda: f"[{vn}] indices {_short(keep.tolist())}: {_short(got.tolist())} want {_short(want.tolist())}")
        check(np.array_equal(idx, keep), pre + "|mutates_argument", "gather_nd changed the index array passed in")
    elif api == "mask":
        var = aux % 4
        if var == 0:
            m = np.ones(A.shape, dtype=bool)
        elif var == 1:
            m = np.zeros(A.shape, dtype=bool)
        elif var == 2:
            m = np.random.RandomState(aux).rand(*A.shape) < 0.5
        else:
            m = (np.indices(A.shape).sum(axis=0) % 2 == 0) if nd else np.ones((), bool)
        got = np.asarray(L(e.mask, m.copy()))
        want = A[m]
        check(got.shape == want.shape and np.array_equal(got, want), pre + "|value", lambda: f"mask {_short(m.astype(int).tolist())}: {_short(got.tolist())} want {_short(want.tolist())}")
    elif api == "get_value":
        cells = _cells(A.shape)
        idx = cells[aux % len(cells)].copy()
        got = L(e.get_value, idx)
        check(got is not None and np.asarray(got).shape == () and np.asarray(got).item() == A[tuple(idx)].item(), pre + "|value", lambda: f"index {idx.tolist()}: {got!r} want {A[tuple(idx)]!r}")
    elif api == "stripped":
        res = L(lambda: e.stripped)
        check(isinstance(res, tuple) and len(res) == 2, pre + "|shape", _short(res))
        s, pad = res
        pad = np.asarray(pad)
        check(pad.shape == (nd, 2), pre + "|padding_shape", f"padding shape {pad.shape}")
        if not A.any():
            check(int(L(lambda: s.size)) == 0 and (pad >= 0).all() and (pad.sum(axis=1) == np.array(A.shape)).all(), pre + "|allzero", f"size {s.size} padding {pad.tolist()}")
        else:
            nz = np.nonzero(A)
            lo = [int(x.min()) for x in nz]
            hi = [int(x.max()) + 1 for x in nz]
            want_pad = [[l, sz - h] for l, h, sz in zip(lo, hi, A.shape)]
            crop = A[tuple(slice(l, h) for l, h in zip(lo, hi))]
            sd = np.asarray(L(lambda: s.dense))
            check(sd.shape == crop.shape and np.array_equal(sd, crop), pre + "|data", lambda: f"stripped {_short(sd.tolist())} want {_short(crop.tolist())}")
            check(pad.tolist() == want_pad, pre + "|padding", lambda: f"padding {pad.tolist()} want {want_pad} (array {_short(A.tolist())})")
    elif api in ("rld", "brld"):
        odt = np.dtype(case.get("odt", "uint8"))
        f = e if nd == 1 else L(lambda: e.flat)
        flat = A.reshape(-1).tolist()
        if api == "rld":
            out = np.asarray(L(f.run_length_data, dtype=odt)).tolist()
            dec = ref.rle_decode(out)
            counts = out[1::2]
        else:
            out = np.asarray(L(f.binary_run_length_data, dtype=odt)).tolist()
            dec = ref.brle_decode(out)
            counts = out
        check(dec is not None and dec == flat, pre + "|decode", lambda: f"{_short(out)} does not decode to {_short(flat)}")
        check(all(0 <= c <= np.iinfo(odt).max for c in counts), pre + "|count_range", lambda: f"{_short(out)} exceeds {odt}")
    elif api == "copy":
        c = L(e.copy)
        check(c is not e and isinstance(c, enc.Encoding), pre + "|identity", "copy() returned the same object")
        d = np.asarray(L(lambda: c.dense))
        check(tuple(int(s) for s in c.shape) == A.shape and np.array_equal(d, A), pre + "|value", lambda: f"copy dense {_short(d.tolist())} want {_short(A.tolist())}")
    else:
        raise ValueError(api)


def _array_of(case):
    """bool / int64 (signed values allowed) / float64 (case["vdt"] == "float") array represented by the case."""
    isfloat = case.get("vdt") == "float"
    vals = np.array(case["vals"], dtype=np.float64 if isfloat else np.int64)
    k = int(case.get("k", 1))
    if k != 1:
        vals = np.repeat(vals, k)
    A = vals.reshape(tuple(case["shape"]))
    return A.astype(bool) if case["bool"] else A


@body("C13.enc")
def b_enc(case, ctx):
    A0 = _array_of(case)
    chain = case.get("chain", [])
    api = case["api"]
    kind = case["kind"]
    flat = A0.reshape(-1).tolist()
    runs = ref.runs(flat)
    longest = max([c for _, c in runs] + [0])
    mx = int(np.iinfo(np.dtype(case.get("edt", "int64"))).max)
    ctx.note(
        nontrivial=_nontrivial(flat),
        cls=[f"enc:{kind}:depth{len(chain)}", f"enc:run{'<max' if longest < mx else '=max' if longest == mx else '>max'}"] + [f"enc:view:{op[0]}" for op in chain]
        + (["enc:vals=float"] if A0.dtype.kind == "f" else ["enc:vals=signed"] if A0.dtype.kind == "i" and (A0 < 0).any() else [])
        + ([f"enc:cancel:{kind}"] if A0.any() and A0.sum() == 0 else []),
    )

    def run(depth):
        e = _build_base(case, A0)
        A = A0
        for op in chain[:depth]:
            e, A = _apply_view(e, A, op)
        label = _kind_label(kind, A0.ndim) if depth == 0 else type(e).__name__
        _eval_api(api, e, A, case, label)

    try:
        run(len(chain))
    except Violation as v:
        # attribute the failure to the shortest failing prefix of the view chain (its root cause)
        for d in range(len(chain)):
            run(d)
        raise v


def _bits(n, size):
    return [(n >> i) & 1 for i in range(size)]


def _enc_base_cases():
    i = 0
    shapes = [(2, 3, 2), (1, 1, 1), (1, 2, 1), (2, 1, 3), (3, 2, 1), (2, 3), (3, 2), (1, 4), (1,), (2,), (3,), (4,), (5,), (6,)]
    for shape in shapes:
        size = int(np.prod(shape))
        for n in range(2**size):
            vals = _bits(n, size)
            for kind in KINDS:
                for api in APIS:
                    if size >= 12 and api in ("gather_nd", "mask", "get_value") and n % 4 != (i // 8) % 4 and n not in (0, 2**size - 1):
                        continue  # index maps do not depend on the content: every 4th array for these three
                    i += 1
                    yield {"shape": list(shape), "vals": vals, "bool": True, "kind": kind, "edt": DTYPES[i % 4], "how": ("from_dense", "ref")[(i // 4) % 2],
                           "odt": DTYPES[(i // 8) % 4], "api": api, "aux": n + i % 7, "chain": []}
    # integer valued arrays (Dense / Sparse / RunLength): every cell distinct, zeros at both ends and inside
    for shape in [(2, 3, 2), (2, 3), (6,)]:
        size = int(np.prod(shape))
        for vals in ([0] + list(range(2, size)) + [0], list(range(1, size + 1)), [0, 0, 5, 5, 2, 0] * (size // 6), [1, 1, 0, 2, 2, 2] * (size // 6)):
            for kind in ("dense", "sparse", "rle"):
                for api in APIS:
                    if api == "brld":
                        continue
                    for aux in range(5):
                        i += 1
                        yield {"shape": list(shape), "vals": vals, "bool": False, "kind": kind, "edt": DTYPES[i % 4], "how": ("from_dense", "ref")[(i // 4) % 2],
                               "odt": DTYPES[(i // 8) % 4], "api": api, "aux": aux, "chain": []}


SIGNED_SHAPES = [(1, 2, 2), (4,), (2, 2)]


def _enc_signed_cases():
    """EVERY array over {-1, 0, 1} of 4 cells (81, 18 of them non-zero with sum 0) as int64 and the same values halved as
    float64, plus a few larger cancelling ones; Dense / Sparse / RunLength (int only), every read API."""
    i = 0
    arrays = [(shape, list(v)) for shape in SIGNED_SHAPES for v in itertools.product((-1, 0, 1), repeat=4)]
    arrays += [((2, 3, 2), [0, -1, 1, 0, 2, -2, 0, 0, 3, -3, 0, 0]), ((2, 3, 2), [-1, 0, 0, 0, 0, 0, 0, 0, 0, 0, 0, 1]), ((2, 3, 2), [0, 0, -5, -5, 0, 0, 0, 0, 0, 0, 0, 0]),
               ((6,), [0, -1, -1, 2, 0, 0]), ((6,), [-2, 0, 0, 0, 1, 1]), ((2, 3), [0, 0, 0, -1, 1, 0])]
    for shape, vals in arrays:
        for vdt in ("int", "float"):
            for kind in ("dense", "sparse", "rle"):
                if vdt == "float" and kind == "rle":
                    continue
                for api in APIS:
                    if api == "brld" or (api == "rld" and vdt == "float"):
                        continue
                    i += 1
                    edt = ("int8", "int64")[i % 2]
                    c = {"shape": list(shape), "vals": vals if vdt == "int" else [0.5 * v for v in vals], "bool": False, "kind": kind, "edt": edt,
                         "how": ("from_dense", "ref")[(i // 2) % 2], "odt": ("int64", "uint8", "int8")[(i // 4) % 3], "api": api, "aux": i % 20, "chain": []}
                    if vdt == "float":
                        c["vdt"] = "float"
                    yield c


def _reshapes(shape):
    size = int(np.prod(shape))
    out = []
    if len(shape) != 1:
        out.append([size])
    for a in range(2, size):
        if size % a == 0 and [a, size // a] != list(shape):
            out.append([a, size // a])
    fac3 = [[a, b, size // (a * b)] for a in range(1, size + 1) if size % a == 0 for b in range(1, size // a + 1) if (size // a) % b == 0]
    fac3 = [f for f in fac3 if f != list(shape) and 1 not in f][:3]
    out += fac3
    if size % 2 == 0 and size >= 4:
        out.append([-1, 2])
        out.append([2, -1, 1])
    return out


def _ops_for(shape, extra=False):
    nd = len(shape)
    ops = []
    for r in range(1, nd + 1):
        for axes in itertools.combinations(range(nd), r):
            ops.append(["flip", list(axes)])
    for perm in itertools.permutations(range(nd)):
        if list(perm) != list(range(nd)):
            ops.append(["transpose", list(perm)])
    for s in _reshapes(shape):
        ops.append(["reshape", s])
    ops.append(["flat"])
    if extra:
        ops += [["flip", []], ["flip", 0], ["flip", -1], ["flip_arr", [nd - 1]], ["flip_arr", []], ["transpose", list(range(nd))], ["transpose", [-1] + list(range(nd - 1))], ["reshape", list(shape)]]
    return ops


def _shape_after(shape, op):
    A = np.zeros(shape, dtype=bool)
    name = op[0]
    if name in ("flip", "flip_arr"):
        return tuple(shape)
    if name == "transpose":
        return tuple(np.transpose(A, op[1]).shape)
    if name == "reshape":
        return tuple(np.reshape(A, op[1]).shape)
    return (A.size,)


def _chains(shape, depth, extra_first=True):
    """All view chains of exactly `depth` ops starting from `shape`."""
    if depth == 0:
        yield []
        return
    for op in _ops_for(shape, extra=extra_first and depth == 1):
        s2 = _shape_after(shape, op)
        for rest in _chains(s2, depth - 1, extra_first=False):
            yield [op] + rest


VIEW_ARRAYS = {
    (2, 3, 2): [([1, 0, 0, 1, 1, 0, 0, 0, 1, 0, 1, 1], True), ([0, 0, 0, 0, 0, 1, 0, 0, 0, 0, 0, 0], True), ([0] * 12, True), ([0, 2, 3, 4, 5, 6, 7, 0, 9, 10, 11, 12], False)],
    (1, 2, 3): [([0, 1, 1, 0, 0, 1], True), ([1, 2, 0, 4, 5, 6], False), ([0, -1, -1, 2, 0, 0], False)],
}
VIEW_ARRAYS[(2, 3, 2)].append(([0, -1, 1, 0, 2, -2, 0, 0, 3, -3, 0, 0], False))  # signed, non-zero, sum 0


def _enc_view_cases(depths, shapes):
    i = 0
    for shape in shapes:
        for depth in depths:
            for chain in _chains(shape, depth):
                # extra ops (depth 1) get the one-op chain only once; plain chains get everything
                for vals, isbool in VIEW_ARRAYS[shape]:
                    for kind in KINDS:
                        if kind == "brle" and not isbool:
                            continue
                        for api in APIS:
                            if api == "brld" and not isbool:
                                continue
                            i += 1
                            yield {"shape": list(shape), "vals": vals, "bool": isbool, "kind": kind, "edt": DTYPES[i % 4], "how": ("from_dense", "ref")[(i // 4) % 2],
                                   "odt": DTYPES[(i // 8) % 4], "api": api, "aux": i % 20, "chain": chain}


def _enc_long_cases(max_bool, ks):
    i = 0
    for n in range(1, max_bool + 1):
        for s in itertools.product((0, 1), repeat=n):
            for k in ks:
                for edt in ("uint8", "int8", "uint16"):
                    for kind in ("rle", "brle"):
                        for how in ("ref", "from_dense"):
                            for chain in ([], [["flip", [0]]], [["reshape", [n, k]]], [["reshape", [k, n]], ["transpose", [1, 0]]]):
                                if how == "from_dense" and chain:
                                    continue
                                for api in APIS:
                                    if api == "mask" and chain:
                                        continue
                                    i += 1
                                    yield {"shape": [n * k], "vals": list(s), "k": k, "bool": True, "kind": kind, "edt": edt, "how": how, "odt": DTYPES[i % 4], "api": api,
                                           "aux": i % 20, "chain": chain}
    # zero-length runs stored in the encoding (valid, non-merged data)
    for s in ([0, 0, 0], [0, 1, 1, 0], [1, 1, 1], [0, 0, 1, 1, 1, 0, 0, 0], [1, 1, 0, 0, 1, 1]):
        for kind in ("rle", "brle"):
            for api in APIS:
                for aux in range(5):
                    yield {"shape": [len(s)], "vals": s, "bool": True, "kind": kind, "edt": "int64", "how": "ref_nc", "odt": "uint8", "api": api, "aux": aux, "chain": []}
    # integer valued long runs (RunLengthEncoding only)
    for s in ([5], [0, 5], [2, 0, 5], [5, 5, 0]):
        for k in ks:
            for edt in ("uint8", "int8", "uint16"):
                for api in APIS:
                    if api == "brld":
                        continue
                    i += 1
                    yield {"shape": [len(s) * k], "vals": s, "k": k, "bool": False, "kind": "rle", "edt": edt, "how": "ref", "odt": DTYPES[i % 4], "api": api, "aux": i % 20, "chain": []}


def _enc_long_signed_cases(ks):
    i = 0
    for s in ([-1, 1], [1, -1, 0], [0, -2, 2], [-1, -1, 2]):
        for k in ks:
            for edt in ("int8", "int64"):
                for how in ("ref", "from_dense"):
                    for chain in ([], [["flip", [0]]], [["reshape", [len(s), k]]]):
                        for api in APIS:
                            if api == "brld" or (api == "mask" and chain):
                                continue
                            i += 1
                            yield {"shape": [len(s) * k], "vals": s, "k": k, "bool": False, "kind": "rle", "edt": edt, "how": how, "odt": DTYPES[i % 4], "api": api, "aux": i % 20, "chain": chain}


@st.composite
def enc_case(draw, min_depth=0, max_depth=3):
    shape = draw(st.sampled_from([(2, 3, 2), (1, 2, 3), (2, 2, 2), (3, 2, 1), (2, 1, 1), (1, 1, 1), (3, 4), (2, 2), (6,), (2, 3, 4)]))
    size = int(np.prod(shape))
    vtype = draw(st.sampled_from(["bool", "bool", "uint", "signed", "float"]))
    isbool = vtype == "bool"
    kind = draw(st.sampled_from(KINDS if isbool else KINDS[:2] if vtype == "float" else KINDS[:3]))
    if kind == "sparse" and len(shape) != 3:
        kind = "dense"
    if isbool:
        vals = draw(st.lists(st.integers(0, 1), min_size=size, max_size=size))
    elif vtype == "uint":
        vals = draw(st.lists(st.sampled_from([0, 0, 1, 2, 5, 7]), min_size=size, max_size=size))
    else:
        # signed values: with probability 1/2 made to cancel (non-zero entries, sum 0) by construction
        vals = draw(st.lists(st.sampled_from([0, 0, 0, 1, -1, 2, -2, 3]), min_size=size, max_size=size))
        if draw(st.booleans()) and size >= 2:
            j = draw(st.integers(0, size - 1))
            vals[j] = 0
            vals[j] = -sum(vals)
        if vtype == "float":
            vals = [0.5 * v for v in vals]
    depth = draw(st.integers(min_depth, max_depth))
    chain = []
    sh = shape
    for _ in range(depth):
        ops = _ops_for(sh, extra=True)
        op = ops[draw(st.integers(0, len(ops) - 1))]
        chain.append(op)
        sh = _shape_after(sh, op)
    api = draw(st.sampled_from([a for a in APIS if isbool or (a != "brld" and not (a == "rld" and vtype == "float"))]))
    extra = {"vdt": "float"} if vtype == "float" else {}
    return {**extra, "shape": list(shape), "vals": vals, "bool": isbool, "kind": kind, "edt": draw(st.sampled_from(DTYPES)), "how": draw(st.sampled_from(["from_dense", "ref"])),
            "odt": draw(st.sampled_from(DTYPES)), "api": api, "aux": draw(st.integers(0, 200)), "chain": chain}


def s_enc_base(ctx):
    ctx.enumerate("C13.enc", _enc_base_cases(), label="encodings_all_bool_arrays_shapes<=(2,3,2)_x_4_classes_x_all_read_apis")
    ctx.enumerate("C13.enc", _enc_signed_cases(), label="encodings_all_arrays_over{-1,0,1}_of_4_cells_int_and_float_x_dense_sparse_rle_x_all_read_apis")


def s_enc_views(ctx):
    if ctx.tier == "quick":
        ctx.enumerate("C13.enc", _enc_view_cases((1, 2), [(2, 3, 2)]), label="lazy_view_chains_depth<=2_from_(2,3,2)_x_4_classes_x_all_read_apis")
        ctx.enumerate("C13.enc", _enc_view_cases((1,), [(1, 2, 3)]), label="lazy_view_chains_depth1_from_(1,2,3)")
        ctx.given("C13.enc", enc_case(min_depth=3, max_depth=3), n={"quick": 5000, "thorough": 0})
    else:
        ctx.enumerate("C13.enc", _enc_view_cases((1, 2, 3), [(2, 3, 2)]), label="lazy_view_chains_depth<=3_from_(2,3,2)_x_4_classes_x_all_read_apis")
        ctx.enumerate("C13.enc", _enc_view_cases((1, 2), [(1, 2, 3)]), label="lazy_view_chains_depth<=2_from_(1,2,3)")


def s_enc_long(ctx):
    if ctx.tier == "quick":
        ctx.enumerate("C13.enc", _enc_long_cases(3, [255, 256, 300, 510]), label="long_run_1d_encodings_bool_len<=3_x_k{255,256,300,510}_x_narrow_count_dtypes")
        ctx.enumerate("C13.enc", _enc_long_signed_cases([127, 128, 300]), label="long_run_1d_signed_cancelling_rle_x_k{127,128,300}")
    else:
        ctx.enumerate("C13.enc", _enc_long_cases(5, KS), label="long_run_1d_encodings_bool_len<=5_x_all_k_x_narrow_count_dtypes")
        ctx.enumerate("C13.enc", _enc_long_signed_cases([127, 128] + KS), label="long_run_1d_signed_cancelling_rle_x_all_k")


def s_enc_hyp(ctx):
    ctx.given("C13.enc", enc_case(), n={"quick": 3000, "thorough": 200000})


# ------------------------------------------------------------------------------------------ C13.grid


def _grid_encoding(kind, A, view):
    case = {"kind": kind, "edt": "int64", "how": "from_dense"}
    e = _build_base(case, A)
    if view:
        e, A = _apply_view(e, A, view)
    return e, A


@body("C13.grid")
def b_grid(case, ctx):
    A0 = np.array(case["vals"], dtype=bool).reshape(tuple(case["shape"]))
    M = np.array(case["M"]["M"], dtype=np.float64)
    mcls = case["M"]["cls"]
    what = case["what"]
    view = case.get("view")
    e, A = _grid_encoding(case["kind"], A0, view)
    det = float(np.linalg.det(M[:3, :3]))
    ctx.note(nontrivial=_nontrivial(A.reshape(-1).tolist()), cls=[f"grid:{what}", f"grid:M={mcls}", "grid:det<0" if det < 0 else "grid:det>0"])
    tag = f"C13.grid|{what}"
    g = lib(tag + "|construct", VoxelGrid, e, M.copy())
    idx = np.array(case["idx"], dtype=np.int64).reshape((-1, 3))
    off = np.array(case["off"], dtype=np.float64).reshape((-1, 3))[: len(idx)]
    if len(off) < len(idx):
        off = np.vstack([off, np.zeros((len(idx) - len(off), 3))])
    if what == "roundtrip":
        p = lib(tag, g.indices_to_points, idx.copy())
        want_p = idx @ M[:3, :3].T + M[:3, 3]
        imax = float(np.abs(idx).sum(axis=1).max()) if len(idx) else 0.0
        scale = np.abs(M[:3, :3]).sum() * imax + np.abs(M[:3, 3]).max() + 1
        # 1e-9 relative float error + the documented identity shortcut (matrices within 1e-8 of eye(4) are not applied)
        check(p.shape == want_p.shape and np.allclose(p, want_p, rtol=0, atol=1e-9 * scale + IDENTITY_TOL * (imax + 1)), tag + "|indices_to_points", lambda: f"{p.tolist()} want {want_p.tolist()}")
        j = lib(tag, g.points_to_indices, p)
        check(np.array_equal(j, idx), tag + "|inverse", lambda: f"points_to_indices(indices_to_points(i)) = {_short(j.tolist())} for i = {_short(idx.tolist())}")
        j2 = lib(tag, g.points_to_indices, want_p + off @ M[:3, :3].T)
        check(np.array_equal(j2, idx), tag + "|inverse_offset", lambda: f"points inside cells {_short(idx.tolist())} (offsets {_short(off.tolist())}) map to {_short(j2.tolist())}")
    elif what == "volume":
        fc = lib(tag, lambda: g.filled_count)
        check(int(fc) == int(A.sum()), tag + "|filled_count", f"{fc} want {A.sum()}")
        vol = float(lib(tag, lambda: g.volume))
        want = int(A.sum()) * abs(det)
        check(abs(vol - want) <= 1e-9 * max(abs(want), 1e-300), tag + "|value|" + ("det<0" if det < 0 else "det>0"), f"volume {vol} want filled_count*|det| = {want} (matrix class {mcls})")
        check(tuple(int(s) for s in g.shape) == A.shape, tag + "|shape", f"{g.shape}")
    elif what == "is_filled":
        pts = idx @ M[:3, :3].T + M[:3, 3] + off @ M[:3, :3].T
        inside = np.all((idx >= 0) & (idx < np.array(A.shape)), axis=1)
        want = np.zeros(len(idx), dtype=bool)
        want[inside] = A[tuple(idx[inside].T)]
        got = np.asarray(lib(tag, g.is_filled, pts))
        ctx.note(cls=["grid:is_filled:outside" if (~inside).any() else "grid:is_filled:all_inside"])
        check(got.shape == want.shape and np.array_equal(got, want), tag + "|value", lambda: f"cells {_short(idx.tolist())}: {_short(got.tolist())} want {_short(want.tolist())}")
    elif what == "points":
        pts = np.asarray(lib(tag, lambda: g.points))
        cells = np.argwhere(A)
        want = cells @ M[:3, :3].T + M[:3, 3]
        check(pts.shape == want.shape, tag + "|count", f"{pts.shape} want {want.shape}")
        scale = np.abs(M[:3, :3]).sum() * 4 + np.abs(M[:3, 3]).max() + 1
        # compare as sets: go back to integer cells with the exact inverse
        back = np.round(np.linalg.solve(M[:3, :3], (pts - M[:3, 3]).T).T).astype(np.int64) if len(pts) else np.zeros((0, 3), np.int64)
        check(sorted(map(tuple, back.tolist())) == sorted(map(tuple, cells.tolist())), tag + "|set", lambda: f"points are the centres of cells {_short(back.tolist())} want {_short(cells.tolist())}")
        order = {tuple(c): i for i, c in enumerate(cells.tolist())}
        perm = [order[tuple(b)] for b in back.tolist()]
        check(np.allclose(pts, want[perm], rtol=0, atol=1e-9 * scale + IDENTITY_TOL * (sum(A.shape) + 1)), tag + "|value", "points differ from M @ index")
        if len(pts):
            f = np.asarray(lib(tag, g.is_filled, pts))
            check(f.all(), tag + "|is_filled_points", "is_filled(grid.points) is not all True")
    else:
        raise ValueError(what)


@st.composite
def grid_case(draw):
    shape = draw(st.sampled_from([(2, 3, 2), (1, 2, 3), (3, 3, 3), (2, 2, 2), (1, 1, 1), (4, 2, 3)]))
    size = int(np.prod(shape))
    vals = draw(st.lists(st.integers(0, 1), min_size=size, max_size=size))
    M = draw(gm.matrix())
    kind = draw(st.sampled_from(KINDS))
    view = draw(st.sampled_from([None, None, ["transpose", [0, 2, 1]], ["transpose", [1, 2, 0]], ["flip", [0]], ["flip", [1, 2]]]))
    m = draw(st.integers(0, 8))
    lo = st.integers(-3, 5)
    idx = draw(st.lists(st.one_of(st.tuples(lo, lo, lo), st.tuples(st.integers(0, shape[0] - 1), st.integers(0, shape[1] - 1), st.integers(0, shape[2] - 1)),
                                  st.tuples(st.integers(-40, 40), st.integers(-40, 40), st.integers(-40, 40))), min_size=m, max_size=m))
    o = st.floats(-0.3, 0.3, allow_nan=False)
    off = draw(st.lists(st.tuples(o, o, o), min_size=m, max_size=m))
    what = draw(st.sampled_from(["roundtrip", "volume", "is_filled", "points"]))
    return {"shape": list(shape), "vals": vals, "M": M, "kind": kind, "view": view, "idx": [list(i) for i in idx], "off": [list(x) for x in off], "what": what}


def s_grid(ctx):
    ctx.given("C13.grid", grid_case(), n={"quick": 3000, "thorough": 120000})


# ------------------------------------------------------------------------------------------ C13.binvox


def _binvox_header(data):
    """Independent reader of the text header: -> (dims, translate, scale, body bytes)."""
    head, sep, bodyb = data.partition(b"data\n")
    if not sep:
        return None
    lines = head.decode("ascii").strip().split("\n")
    if not lines[0].startswith("#binvox"):
        return None
    kv = {l.split()[0]: l.split()[1:] for l in lines[1:]}
    return [int(x) for x in kv["dim"]], [float(x) for x in kv["translate"]], float(kv["scale"][0]), bodyb


@body("C13.binvox")
def b_binvox(case, ctx):
    shape = tuple(case["shape"])
    size = int(np.prod(shape))
    flat = []
    for v, c in case["runs"]:
        flat += [bool(v)] * int(c)
    flat = (flat + [False] * size)[:size]
    A = np.array(flat, dtype=bool).reshape(shape)
    L = float(case["L"])
    t = np.array(case["t"], dtype=np.float64)
    neg = [int(a) for a in case.get("neg", [])]
    ao = case.get("axis_order", "xzy")
    what = case["what"]
    kind = case["kind"]
    sc = L / (np.array(shape, dtype=np.float64) - 1.0)
    for a in neg:
        sc[a] = -sc[a]
    M = np.eye(4)
    M[:3, :3] = np.diag(sc)
    M[:3, 3] = t
    longest = max([c for _, c in ref.runs(A.transpose((0, 2, 1)).reshape(-1).tolist())] + [0])
    ctx.note(nontrivial=_nontrivial(flat), cls=[f"binvox:{what}", f"binvox:kind={kind}", "binvox:run" + ("<255" if longest < 255 else "=k*255" if longest % 255 == 0 else ">255")])
    tag = f"C13.binvox|{what}|{'cubic' if len(set(shape)) == 1 else 'noncubic'}"
    perm = (0, 2, 1) if ao == "xzy" else (0, 1, 2)
    tol = 1e-12 * (abs(L) + np.abs(t).max() + 1)

    def make_grid():
        if kind == "ndarray":
            return lib(tag + "|construct", VoxelGrid, A.copy(), M.copy())
        edt = "uint8" if kind.endswith("_u8") else "int64"
        e = _build_base({"kind": kind.split("_")[0], "edt": edt, "how": "from_dense"}, A)
        return lib(tag + "|construct", VoxelGrid, e, M.copy())

    if what == "load_ref":
        # bytes written by the reference writer -> load_binvox
        bodyb = bytes(int(x) for x in ref.rle_encode(A.transpose(perm).reshape(-1).astype(int).tolist(), 255))
        head = f"#binvox 1\ndim {shape[0]} {shape[1]} {shape[2]}\ntranslate {float(t[0])!r} {float(t[1])!r} {float(t[2])!r}\nscale {L!r}\ndata\n"
        h = lib(tag, bv.load_binvox, io.BytesIO(head.encode() + bodyb), axis_order=ao)
        check(tuple(int(s) for s in h.shape) == shape, tag + "|shape", f"{h.shape} want {shape}")
        d = np.asarray(lib(tag, lambda: h.matrix))
        check(d.shape == A.shape and np.array_equal(d, A), tag + "|matrix", lambda: f"{_short(d.astype(int).tolist())} want {_short(A.astype(int).tolist())}")
        want = np.eye(4)
        want[:3, :3] = np.diag(L / (np.array(shape) - 1.0))
        want[:3, 3] = t
        check(np.allclose(h.transform, want, rtol=0, atol=tol), tag + "|transform", lambda: f"{np.asarray(h.transform).tolist()} want {want.tolist()}")
        fc = lib(tag, lambda: h.filled_count)
        check(int(fc) == int(A.sum()), tag + "|filled_count", f"{fc} want {A.sum()}")
        return
    g = make_grid()
    data = lib(tag + f"|export|{kind}", g.export, file_type="binvox", axis_order=ao)
    if what == "export_ref":
        parsed = _binvox_header(bytes(data))
        check(parsed is not None, tag + "|header", _short(bytes(data)[:120]))
        dims, tr, scale, bodyb = parsed
        check(tuple(dims) == shape, tag + "|dim", f"{dims} want {shape}")
        check(np.allclose(tr, t, rtol=0, atol=tol) and abs(scale - L) <= 1e-9 * abs(L), tag + "|translate_scale", f"translate {tr} scale {scale} want {t.tolist()} {L}")
        dec = ref.rle_decode(list(bodyb))
        check(len(bodyb) % 2 == 0 and dec is not None and [bool(x) for x in dec] == A.transpose(perm).reshape(-1).tolist() and set(dec) <= {0, 1}, tag + "|body",
              lambda: f"body {_short(list(bodyb))} does not decode to the {ao}-ordered matrix")
    elif what == "roundtrip":
        h = lib(tag + "|load", bv.load_binvox, io.BytesIO(bytes(data)), axis_order=ao)
        d = np.asarray(lib(tag, lambda: h.matrix))
        check(d.shape == A.shape and np.array_equal(d, A), tag + "|matrix", lambda: f"{_short(d.astype(int).tolist())} want {_short(A.astype(int).tolist())}")
        check(np.allclose(h.transform, M, rtol=0, atol=tol), tag + "|transform", lambda: f"{np.asarray(h.transform).tolist()} want {M.tolist()}")
        # and once more from the loaded (run-length, transposed) grid
        data2 = lib(tag + "|export|reloaded", h.export, file_type="binvox", axis_order=ao)
        p2 = _binvox_header(bytes(data2))
        dec = ref.rle_decode(list(p2[3])) if p2 else None
        check(dec is not None and [bool(x) for x in dec] == A.transpose(perm).reshape(-1).tolist(), tag + "|second_export", "exporting the re-loaded grid gives a different matrix")
    elif what == "roundtrip_neg":
        h = lib(tag + "|load", bv.load_binvox, io.BytesIO(bytes(data)), axis_order=ao)
        cells = np.argwhere(A)
        want = cells * sc + t
        pts = np.asarray(lib(tag, lambda: h.points))
        key = lambda P: sorted(tuple(np.round(p / (abs(L) / 64.0)).astype(np.int64).tolist()) for p in (P - t))  # noqa
        check(len(pts) == len(want) and key(pts) == key(want), tag + "|points", lambda: f"filled points after reload {_short(sorted(map(tuple, pts.tolist())))} want {_short(sorted(map(tuple, want.tolist())))}")
    else:
        raise ValueError(what)


BINVOX_SHAPES = [(2, 2, 2), (2, 3, 2), (3, 3, 3), (2, 3, 4), (4, 4, 4), (3, 5, 17), (5, 6, 17), (8, 8, 8), (2, 2, 64), (4, 8, 16), (2, 5, 3)]


@st.composite
def binvox_case(draw):
    shape = draw(st.sampled_from(BINVOX_SHAPES))
    size = int(np.prod(shape))
    style = draw(st.integers(0, 5))
    if style == 0:
        runs = [[draw(st.integers(0, 1)), size]]
    elif style == 1:
        first = draw(st.integers(0, 1))
        cut = draw(st.sampled_from([1, 254, 255, 256, size - 255, size - 256, size - 1, size // 2]))
        cut = min(max(cut, 1), size - 1)
        runs = [[first, cut], [1 - first, size - cut]]
    else:
        nruns = draw(st.integers(1, 12))
        v = draw(st.integers(0, 1))
        runs = []
        for _ in range(nruns):
            runs.append([v, draw(st.one_of(st.integers(1, 6), st.integers(1, max(1, size // 2)), st.sampled_from([254, 255, 256, 510, 511])))])
            v = 1 - v
    what = draw(st.sampled_from(["roundtrip", "roundtrip", "export_ref", "load_ref", "roundtrip_neg"]))
    neg = []
    if what == "roundtrip_neg":
        neg = draw(st.lists(st.integers(0, 2), min_size=1, max_size=3, unique=True))
    L = draw(st.one_of(st.sampled_from([1.0, 0.5, 3.0, 10.0]), st.floats(0.01, 100.0, allow_nan=False)))
    tf = st.one_of(st.sampled_from([0.0, 1.0, -2.5]), st.floats(-1000.0, 1000.0, allow_nan=False))
    return {"shape": list(shape), "runs": runs, "L": L, "t": [draw(tf), draw(tf), draw(tf)], "neg": sorted(neg),
            "axis_order": draw(st.sampled_from(["xzy", "xzy", "xyz"])), "what": what, "kind": draw(st.sampled_from(["ndarray", "dense", "sparse", "rle", "brle", "rle_u8", "brle_u8"]))}


def s_binvox(ctx):
    ctx.given("C13.binvox", binvox_case(), n={"quick": 2000, "thorough": 60000})


# registration order = scheduling order: the Hypothesis searches first, so that they are never squeezed out by the
# big enumerations when the machine is loaded
for _name, _shards, _fn in [
    ("grid", {"quick": 3, "thorough": 8}, s_grid),
    ("binvox", {"quick": 3, "thorough": 8}, s_binvox),
    ("enc_hyp", {"quick": 2, "thorough": 8}, s_enc_hyp),
    ("enc_views", {"quick": 6, "thorough": 16}, s_enc_views),
    ("enc_base", {"quick": 8, "thorough": 8}, s_enc_base),
    ("rl_k1", {"quick": 8, "thorough": 12}, s_rl_k1),
    ("enc_long", {"quick": 4, "thorough": 8}, s_enc_long),
    ("rl_inflated", {"quick": 8, "thorough": 16}, s_rl_inflated),
    ("rl_u16", {"quick": 2, "thorough": 2}, s_rl_u16),
]:
    subcheck("C13", _name, shards=_shards)(_fn)

REQUIRED_CLASSES["C13"] = [
    "rl:uint8:run=max",
    "rl:uint8:run>max",
    "rl:uint8:runk*max",
    "rl:int8:runk*max",
    "rl:uint16:run=max",
    "rl:int64:run<max",
    "rl:form=nc",
    "rl:form=odd",
    "rl:form=list",
    "enc:dense:depth0",
    "enc:sparse:depth2",
    "enc:rle:depth3",
    "enc:brle:depth3",
    "enc:run>max",
    "enc:vals=signed",
    "enc:vals=float",
    "enc:cancel:dense",
    "enc:cancel:sparse",
    "enc:cancel:rle",
    "rl:signed_values",
    "enc:view:flip",
    "enc:view:transpose",
    "enc:view:reshape",
    "enc:view:flat",
    "grid:det<0",
    "grid:is_filled:outside",
    "binvox:run=k*255",
    "binvox:run>255",
]
