"""C10 — scene-level quantities equal explicit placement of every instance."""

import numpy as np
from hypothesis import strategies as st
from scipy.spatial import ConvexHull

import trimesh

from ..core import ASSUMPTIONS, REQUIRED_CLASSES, RULES, Violation, body, check, subcheck
from ..gen import matrices as gm
from ..gen import meshes as gmesh

RULES["C10"] = (
    "Scenes built from a random forest of frames (depth<=4, <=8 nodes) with rigid / similarity edge transforms; "
    "geometries from the template pool (no unreferenced vertices) plus a point cloud and a 3D path, each instanced 0, 1 "
    "or several times; optionally a short history of graph edits, in-place edits of a shared geometry, add_geometry and "
    "delete_geometry with reads in between. Oracle: every node carrying geometry g with world transform T (product of "
    "the edges we created) contributes T.g; bounds/extents/centroid/scale, triangles (+triangles_node), area, volume, "
    "center_mass, moment_inertia, convex hull, dump(), to_mesh(), to_geometry() are recomputed from those placed copies "
    "with our own formulas; copy, scaled(s | (sx,sy,sz)), rezero, convert_units, apply_transform, a+b and subscene must "
    "preserve (scale / move) the multiset of placed triangles and leave the source scene byte-identical. "
    "Non-trivial: depth>=2 with a non-axis-aligned rotation above a translated child and a geometry instanced >=2 times."
)
ASSUMPTIONS["C10"] = [
    "edge transforms are rigid or similarities with positive determinant (what the property quantifies over)",
    "meshes have no unreferenced vertices (Scene.bounds uses all vertices, Trimesh.bounds only referenced ones; the property does not arbitrate)",
    "numpy / scipy ConvexHull trusted for the reference computations",
]

_f = lambda lo, hi: st.floats(lo, hi, allow_nan=False, allow_infinity=False)  # noqa


def hom(M, P):
    return (M[:3, :3] @ np.asarray(P, dtype=np.float64).T).T + M[:3, 3]


def tri_area(T):
    return 0.5 * np.linalg.norm(np.cross(T[:, 1] - T[:, 0], T[:, 2] - T[:, 0]), axis=1).sum()


def mass_props(T):
    """volume, first moments, second-moment matrix about the origin of the solid bounded by triangles T (n,3,3),
    by signed tetrahedra from the origin (float64)"""
    a, b, c = T[:, 0], T[:, 1], T[:, 2]
    det = np.einsum("ij,ij->i", a, np.cross(b, c))
    V = det.sum() / 6.0
    S = a + b + c
    first = (det[:, None] * S).sum(axis=0) / 24.0
    second = np.zeros((3, 3))
    for i in range(3):
        for j in range(3):
            second[i, j] = (det * (a[:, i] * a[:, j] + b[:, i] * b[:, j] + c[:, i] * c[:, j] + S[:, i] * S[:, j])).sum() / 120.0
    return V, first, second


def inertia_about(T_list, point):
    """inertia tensor (density 1) of the union of solids about `point`"""
    I = np.zeros((3, 3))
    for T in T_list:
        V, first, second = mass_props(T - point)
        I += np.trace(second) * np.eye(3) - second
    return I


def canon_tris(T, decimals):
    """multiset of triangles (each as a cyclic-order-free sorted vertex set) rounded for matching"""
    T = np.asarray(T, dtype=np.float64).reshape((-1, 3, 3))
    R = np.round(T, decimals) + 0.0
    keys = []
    for t in R:
        rows = sorted(map(tuple, t.tolist()))
        keys.append(tuple(rows))
    return sorted(keys)


def same_tris(A, B, scale):
    """compare two triangle soups as multisets within 1e-9*scale"""
    A = np.asarray(A, dtype=np.float64).reshape((-1, 3, 3))
    B = np.asarray(B, dtype=np.float64).reshape((-1, 3, 3))
    if len(A) != len(B):
        return False, f"{len(A)} triangles vs {len(B)}"
    if len(A) == 0:
        return True, ""
    # order-free comparison: sort triangles by centroid + area signature using a coarse rounding, then compare finely
    tol = 1e-9 * scale

    def key(T):
        c = T.mean(axis=1)
        s = np.sort(T.reshape((-1, 9)), axis=1)
        return np.lexsort(np.round(np.column_stack((s, c)) / (tol * 1e3)).T[::-1])

    def norm(T):
        # sort the three vertices of each triangle lexicographically
        out = np.empty_like(T)
        for i, t in enumerate(T):
            out[i] = t[np.lexsort(np.round(t / (tol * 1e3)).T[::-1])]
        return out

    An, Bn = norm(A), norm(B)
    An = An[key(An)]
    Bn = Bn[key(Bn)]
    d = np.abs(An - Bn).max()
    if d <= tol:
        return True, ""
    # fall back to a nearest-neighbour match on flattened sorted triangles (robust to ties in the coarse sort)
    from scipy.spatial import cKDTree

    dd, idx = cKDTree(Bn.reshape((-1, 9))).query(An.reshape((-1, 9)))
    if dd.max() <= tol * 3 and len(set(idx.tolist())) == len(idx):
        return True, ""
    return False, f"triangle multisets differ (max deviation after matching {min(d, dd.max()):.3g} > {tol:.3g})"


# ------------------------------------------------------------------------------- scene construction

GEOMS = {
    "box": {"parts": [{"kind": "box", "ext": [1.0, 2.0, 3.0]}]},
    "tet": {"parts": [{"kind": "tetra"}]},
    "prism": {"parts": [{"kind": "prism", "radii": [1.0, 0.5, 1.2, 0.6, 0.9], "height": 1.5}]},
    "ico": {"parts": [{"kind": "icos", "sub": 0}], "jseed": 3, "jamp": 0.05},
}


def verts3(geo):
    """vertices of a geometry as (n, 3): a planar path lives in the z = 0 plane of its node"""
    v = np.asarray(geo.vertices, dtype=np.float64)
    if v.ndim == 2 and v.shape[1] == 2:
        v = np.column_stack((v, np.zeros(len(v))))
    return v


def make_geometry(name):
    name = name.split("#")[0]  # "box#2" is a second object with the same content as "box"
    if name == "path2":
        return trimesh.load_path(np.array([[[0, 0], [2, 0]], [[2, 0], [2, 1]], [[2, 1], [0.5, 1.5]], [[0.5, 1.5], [0, 0]]], dtype=np.float64))
    if name in GEOMS:
        V, F = gmesh.build(GEOMS[name])
        return trimesh.Trimesh(V + np.array([0.3, -0.2, 0.1]), F, process=False)
    if name == "nofaces":
        # a mesh that has vertices but (no longer) any face, e.g. after update_faces with an all-False mask
        V, F = gmesh.build(GEOMS["tet"])
        m = trimesh.Trimesh(V + np.array([0.5, 0.5, 0.5]), F, process=False)
        m.update_faces(np.zeros(len(F), dtype=bool))
        return m
    if name == "cloud":
        return trimesh.PointCloud(np.random.RandomState(5).uniform(-1, 1, (7, 3)))
    if name == "path3":
        return trimesh.load_path(np.array([[[0, 0, 0], [1, 0, 0.5]], [[1, 0, 0.5], [1, 2, 0]], [[1, 2, 0], [0, 0, 0]]], dtype=np.float64))
    raise ValueError(name)


class Placed:
    """the reference: list of (node, geometry name, world transform)"""

    def __init__(self):
        self.parent = {}  # node -> (parent, M)
        self.geom = {}  # node -> geometry name
        self.base = "world"

    def world(self, n):
        M = np.eye(4)
        while n != self.base:
            p, Mn = self.parent[n]
            M = Mn @ M
            n = p
        return M

    def connected(self, n):
        seen = 0
        while n != self.base:
            if n not in self.parent or seen > 50:
                return False
            n = self.parent[n][0]
            seen += 1
        return True

    def instances(self):
        return [(n, g, self.world(n)) for n, g in self.geom.items() if self.connected(n)]


def build_scene(spec):
    s = trimesh.Scene()
    ref = Placed()
    geoms = {}
    buf = np.eye(4)
    for i, node in enumerate(spec["nodes"]):
        name = f"n{i}"
        parent = "world" if node["parent"] is None or node["parent"] >= i else f"n{node['parent']}"
        M = np.array(node["M"], dtype=np.float64)
        # the caller's pose buffer: one array re-used for every node, overwritten after each hand-over
        buf[:] = M
        g = node["geom"]
        if g is not None:
            if g not in geoms:
                geoms[g] = make_geometry(g)
                s.add_geometry(geoms[g], node_name=name, geom_name=g, parent_node_name=None if parent == "world" else parent, transform=buf)
            else:
                s.graph.update(frame_to=name, frame_from=parent, matrix=buf, geometry=g)
            ref.geom[name] = g
        else:
            s.graph.update(frame_to=name, frame_from=parent, matrix=buf)
        if not buf.flags.writeable:
            raise Violation("C10|build|callers_matrix_made_readonly", name)
        buf[:] = np.nan
        ref.parent[name] = (parent, M)
    return s, ref, geoms


def placed_tris(ref, geoms):
    out = []
    nodes = []
    for n, g, T in ref.instances():
        geo = geoms[g]
        if isinstance(geo, trimesh.Trimesh):
            t = hom(T, np.asarray(geo.triangles).reshape((-1, 3))).reshape((-1, 3, 3))
            out.append(t)
            nodes += [n] * len(t)
    return (np.vstack(out) if out else np.zeros((0, 3, 3))), nodes


def placed_points(ref, geoms):
    out = []
    for n, g, T in ref.instances():
        out.append(hom(T, verts3(geoms[g])))
    return np.vstack(out) if out else np.zeros((0, 3))


def scene_state(s):
    return (
        s.__hash__(),
        {k: (np.asarray(g.vertices).tobytes(), np.asarray(getattr(g, "faces", np.zeros(0))).tobytes()) for k, g in s.geometry.items()},
        sorted((str(a), str(b), np.asarray(d.get("matrix", np.eye(4))).tobytes(), d.get("geometry")) for a, b, d in s.graph.to_edgelist()),
        s.graph.base_frame,
    )


def check_quantities(s, ref, geoms, where, sigp):
    P = placed_points(ref, geoms)
    T, tnodes = placed_tris(ref, geoms)
    if len(P) == 0:
        return
    scale = max(1.0, np.abs(P).max())
    # a world transform within 1e-8 of identity is documented to be skipped by transform_points / apply_transform
    if any(0 < np.abs(Tw - np.eye(4)).max() < 1e-8 for _, _, Tw in ref.instances()):
        scale *= 40.0
    tol = 1e-9 * scale
    b = np.array([P.min(axis=0), P.max(axis=0)])
    check(s.bounds is not None and np.abs(s.bounds - b).max() <= tol, sigp + "|bounds", f"{where}: {np.asarray(s.bounds).tolist()} vs placed {b.tolist()}")
    check(np.abs(s.extents - np.ptp(b, axis=0)).max() <= tol, sigp + "|extents", where)
    check(np.abs(s.centroid - b.mean(axis=0)).max() <= tol, sigp + "|centroid", where)
    check(abs(s.scale - np.linalg.norm(np.ptp(b, axis=0))) <= tol * 4, sigp + "|scale", where)
    if len(T):
        ok, msg = same_tris(s.triangles, T, scale)
        check(ok, sigp + "|triangles", f"{where}: {msg}")
        # triangles_node aligned: every triangle attributed to node n is one of n's placed triangles
        tn = list(s.triangles_node)
        check(sorted(map(str, tn)) == sorted(tnodes), sigp + "|triangles_node|counts", where)
        for n in set(tnodes):
            mine = np.asarray(s.triangles)[[i for i, x in enumerate(tn) if str(x) == n]]
            want = T[[i for i, x in enumerate(tnodes) if x == n]]
            ok, msg = same_tris(mine, want, scale)
            check(ok, sigp + "|triangles_node|alignment", f"{where}: node {n}: {msg}")
        area = tri_area(T)
        # a closed planar path has an enclosed area of its own (Path2D.area), carried rigidly / scaled by s^2
        for n, g, Tn in ref.instances():
            if isinstance(geoms[g], trimesh.path.Path2D):
                area += float(geoms[g].area) * abs(np.linalg.det(Tn[:3, :3])) ** (2.0 / 3.0)
        check(abs(s.area - area) <= 1e-9 * area, sigp + "|area", f"{where}: scene.area {s.area} vs sum of placed areas {area}")
        per = {}
        for n, g, Tn in ref.instances():
            if isinstance(geoms[g], trimesh.Trimesh):
                per[n] = hom(Tn, np.asarray(geoms[g].triangles).reshape((-1, 3))).reshape((-1, 3, 3))
        vols = {n: mass_props(t)[0] for n, t in per.items()}
        V = sum(vols.values())
        vs = sum(abs(v) for v in vols.values()) + 1e-300
        check(abs(s.volume - V) <= 1e-9 * vs + 1e-12 * scale**3, sigp + "|volume", f"{where}: scene.volume {s.volume} vs sum of placed volumes {V}")
        if all(v > 1e-9 for v in vols.values()):
            first = sum(mass_props(t)[1] for t in per.values())
            cm = first / V
            check(np.abs(np.asarray(s.center_mass) - cm).max() <= 1e-8 * scale, sigp + "|center_mass", f"{where}: {np.asarray(s.center_mass).tolist()} vs {cm.tolist()}")
            I = inertia_about(list(per.values()), cm)
            got = np.asarray(s.moment_inertia)
            check(np.abs(got - I).max() <= 1e-7 * max(np.abs(I).max(), 1e-300) + 1e-9 * scale**5, sigp + "|moment_inertia", f"{where}: {got.tolist()} vs {I.tolist()}")
    # convex hull of everything that dump() returns vertices for
    if len(P) >= 4 and np.linalg.matrix_rank(P - P.mean(axis=0), tol=1e-9) == 3:
        hv = ConvexHull(P).volume
        h = s.convex_hull
        # a point set that is flat to within rounding has a hull volume that is rounding noise on both sides
        check(abs(h.volume - hv) <= 1e-8 * hv + 1e-9 * scale**3, sigp + "|convex_hull|volume", f"{where}: {h.volume} vs {hv}")
    # dump / to_mesh / to_geometry
    d = s.dump()
    check(len(d) == len(ref.instances()), sigp + "|dump|count", f"{where}: {len(d)} dumped vs {len(ref.instances())} instances")
    dt = [np.asarray(x.triangles) for x in d if isinstance(x, trimesh.Trimesh)]
    if len(T):
        ok, msg = same_tris(np.vstack(dt) if dt else np.zeros((0, 3, 3)), T, scale)
        check(ok, sigp + "|dump|triangles", f"{where}: {msg}")
        ok, msg = same_tris(s.to_mesh().triangles, T, scale)
        check(ok, sigp + "|to_mesh|triangles", f"{where}: {msg}")
    dp = np.vstack([verts3(x) for x in d]) if d else np.zeros((0, 3))
    # dump() documents its in-plane test for planar paths with atol=1e-8 against identity: a node transform that leaves
    # the plane by less than that is applied as a 2D transform, so such an instance is placed to 1e-8 x its size only
    tol_dump = tol
    for n, g, Tn in ref.instances():
        if isinstance(geoms[g], trimesh.path.Path2D):
            off = max(np.abs(Tn[2, :2]).max(), np.abs(Tn[:2, 2]).max(), abs(Tn[2, 2] - 1.0), abs(Tn[2, 3]))
            if 0 < off <= 1e-8:
                tol_dump = tol + 4e-8 * scale
    check(len(dp) == len(P) and np.abs(np.sort(dp, axis=0) - np.sort(P, axis=0)).max() <= tol_dump, sigp + "|dump|vertices", where)


@body("C10.scene")
def b_scene(case, ctx):
    with np.errstate(all="ignore"):
        s, ref, geoms = build_scene(case["spec"])
        inst = ref.instances()
        depth2 = any(ref.parent[n][0] != "world" for n, _, _ in inst)
        multi = len({g for _, g, _ in inst}) < len(inst)
        ctx.note(nontrivial=depth2 and multi, cls=[f"op:{case['op'][0]}", "instanced" if multi else "single", "nested" if depth2 else "flat"])
        if case.get("warm"):
            _ = s.bounds, s.triangles, s.area
        check_quantities(s, ref, geoms, "initial", "C10|quantity")
        T0, _ = placed_tris(ref, geoms)
        P0 = placed_points(ref, geoms)
        if len(P0) == 0:
            return
        scale = max(1.0, np.abs(P0).max())
        op = case["op"]
        k = op[0]
        before = scene_state(s)
        if k == "none":
            return
        if k == "copy":
            c = s.copy()
            check_quantities(c, ref, geoms, "copy", "C10|copy")
        elif k == "scaled":
            f = op[1]
            c = s.scaled(f)
            S = np.diag(list(np.broadcast_to(np.asarray(f, dtype=np.float64), (3,))) + [1.0])
            ok, msg = same_tris(c.triangles, hom(S, T0.reshape((-1, 3))).reshape((-1, 3, 3)), scale * np.abs(S).max())
            kind = "vector" if np.ndim(f) else "scalar"
            check(ok, f"C10|scaled|{kind}|triangles", f"scaled({f}): {msg}")
            Pw = hom(S, P0)
            b = np.array([Pw.min(axis=0), Pw.max(axis=0)])
            check(np.abs(c.bounds - b).max() <= 1e-9 * scale * np.abs(S).max(), f"C10|scaled|{kind}|bounds", f"scaled({f}): {c.bounds.tolist()} vs {b.tolist()}")
        elif k == "convert_units":
            s.units = "mm"
            before = scene_state(s)
            c = s.convert_units("in")
            S = np.diag([1 / 25.4] * 3 + [1.0])
            ok, msg = same_tris(c.triangles, hom(S, T0.reshape((-1, 3))).reshape((-1, 3, 3)), scale)
            check(ok, "C10|convert_units|triangles", msg)
            check(c.units == "in", "C10|convert_units|units", str(c.units))
        elif k == "subscene":
            node = f"n{op[1] % len(case['spec']['nodes'])}"
            c = s.subscene(node)
            Tn = ref.world(node)
            inv = np.linalg.inv(Tn)
            # successors of node (including node itself)
            succ = []
            for n, g, Tw in ref.instances():
                x = n
                while x != "world" and x != node:
                    x = ref.parent[x][0]
                if x == node:
                    succ.append((n, g, Tw))
            want = [hom(inv @ Tw, np.asarray(geoms[g].triangles).reshape((-1, 3))).reshape((-1, 3, 3)) for n, g, Tw in succ if isinstance(geoms[g], trimesh.Trimesh)]
            want = np.vstack(want) if want else np.zeros((0, 3, 3))
            got = c.triangles if any(isinstance(g, trimesh.Trimesh) for g in c.geometry.values()) and len(c.graph.nodes_geometry) else np.zeros((0, 3, 3))
            ok, msg = same_tris(got, want, scale * max(1.0, np.abs(inv).max()))
            has_own = node in ref.geom
            check(ok, f"C10|subscene|triangles|node_has_geometry={has_own}", f"subscene({node}): {msg}")
        elif k == "add":
            s2, ref2, geoms2 = build_scene(case["spec2"])
            st2 = scene_state(s2)
            how = op[1] if len(op) > 1 else "plus"
            T2, _ = placed_tris(ref2, geoms2)
            parts = [T0, T2]
            if how == "plus":
                c = s + s2
            elif how == "append2":
                c = trimesh.scene.scene.append_scenes([s, s2])
            else:
                # a third (and fourth) operand with the same node and geometry names as the second
                s3 = build_scene(case["spec2"])[0]
                parts.append(T2)
                if how == "chain3":
                    c = s + s2 + s3
                elif how == "append3":
                    c = trimesh.scene.scene.append_scenes([s, s2, s3])
                else:
                    s4 = build_scene(case["spec"])[0]
                    parts.append(T0)
                    c = trimesh.scene.scene.append_scenes([s, s2, s3, s4])
            want = np.vstack(parts)
            ok, msg = same_tris(c.triangles, want, max(scale, np.abs(T2).max() if len(T2) else 1.0))
            check(ok, f"C10|add|{how}|triangles", msg)
            n_inst = len(ref.instances()) * (2 if how == "append4" else 1) + len(ref2.instances()) * (1 if how in ("plus", "append2") else 2)
            check(len(c.graph.nodes_geometry) == n_inst, f"C10|add|{how}|instance_count", f"{len(c.graph.nodes_geometry)} instances in the sum, operands hold {n_inst}")
            check(scene_state(s2) == st2, f"C10|add|modified_right_operand", "")
            ctx.note(nontrivial=True, cls=f"add:{how}")
        elif k in ("rezero", "apply_transform"):
            # in-place operations
            if k == "rezero":
                cen = np.asarray(s.centroid).copy()
                s.rezero()
                M = np.eye(4)
                M[:3, 3] = -cen
            else:
                M = np.array(op[1]["M"], dtype=np.float64)
                s.apply_transform(M)
            want = hom(M, T0.reshape((-1, 3))).reshape((-1, 3, 3))
            ok, msg = same_tris(s.triangles, want, scale * max(1.0, np.abs(M).max()))
            check(ok, f"C10|{k}|triangles", msg)
            if k == "rezero":
                check(np.abs(s.centroid).max() <= 1e-9 * scale, "C10|rezero|centroid", str(s.centroid))
            return
        elif k == "history":
            # graph / geometry edits then every quantity again (staleness of the scene cache)
            for step in op[1]:
                if step[0] == "edge":
                    node = f"n{step[1] % len(case['spec']['nodes'])}"
                    p, _ = ref.parent[node]
                    M = np.array(step[2]["M"], dtype=np.float64)
                    s.graph.update(frame_to=node, frame_from=p, matrix=M)
                    ref.parent[node] = (p, M)
                elif step[0] == "edit_geometry":
                    names = sorted(geoms)
                    g = geoms[names[step[1] % len(names)]]
                    g.vertices[0] += np.array([0.5, -0.25, 0.125])[: g.vertices.shape[1]]
                elif step[0] == "scale_geometry":
                    names = sorted(geoms)
                    geoms[names[step[1] % len(names)]].apply_scale(1.5)
                elif step[0] == "scale_all":
                    # the same edit applied to every geometry object of the scene
                    for gname in sorted(geoms):
                        if hasattr(geoms[gname], "apply_scale") and len(geoms[gname].vertices):
                            geoms[gname].apply_scale(step[1])
                elif step[0] == "delete":
                    names = sorted(geoms)
                    if len(names) > 1:
                        name = names[step[1] % len(names)]
                        s.delete_geometry(name)
                        geoms.pop(name)
                        ref.geom = {n: g for n, g in ref.geom.items() if g != name}
                elif step[0] == "add_geometry":
                    if "tet2" not in geoms:
                        geoms["tet2"] = make_geometry("tet")
                        M = np.array(step[2]["M"], dtype=np.float64)
                        s.add_geometry(geoms["tet2"], node_name="extra", geom_name="tet2", transform=M)
                        ref.parent["extra"] = ("world", M)
                        ref.geom["extra"] = "tet2"
                elif step[0] == "readd":
                    # delete a geometry, read, then add it back on one of its former nodes with the same names and transform
                    names = sorted(geoms)
                    if len(names) > 1:
                        name = names[step[1] % len(names)]
                        nodes_of = [n for n, g in ref.geom.items() if g == name]
                        if nodes_of:
                            geo = geoms[name]
                            s.delete_geometry(name)
                            ref.geom = {n: g for n, g in ref.geom.items() if g != name}
                            _ = s.bounds, s.graph.nodes_geometry
                            check_quantities(s, ref, {k: v for k, v in geoms.items() if k != name}, "after delete (before re-add)", "C10|stale|after=delete")
                            node = nodes_of[0]
                            parent, M = ref.parent[node]
                            s.add_geometry(geo, node_name=node, geom_name=name, parent_node_name=None if parent == "world" else parent, transform=M)
                            ref.geom[node] = name
                elif step[0] == "read":
                    _ = s.bounds, s.triangles, s.area, s.volume
                check_quantities(s, ref, geoms, f"after {step[0]}", f"C10|stale|after={step[0]}")
            return
        else:
            raise ValueError(k)
        # operations that return a new scene must leave the source untouched
        check(scene_state(s) == before, f"C10|{k}|modified_source", "the source scene changed")
        check_quantities(s, ref, geoms, f"source after {k}", f"C10|{k}|source_quantities")
        # ... also in what it answers to the NEXT structural query: every subscene again, then a moved copy
        for node in sorted(ref.parent):
            if not ref.connected(node):
                continue
            Tn = ref.world(node)
            inv = np.linalg.inv(Tn)
            succ = []
            for n, g, Tw in ref.instances():
                x = n
                while x != "world" and x != node:
                    x = ref.parent[x][0]
                if x == node and isinstance(geoms[g], trimesh.Trimesh):
                    succ.append(hom(inv @ Tw, np.asarray(geoms[g].triangles).reshape((-1, 3))).reshape((-1, 3, 3)))
            want = np.vstack(succ) if succ else np.zeros((0, 3, 3))
            c2 = s.subscene(node)
            got = c2.triangles if any(isinstance(g, trimesh.Trimesh) for g in c2.geometry.values()) and len(c2.graph.nodes_geometry) else np.zeros((0, 3, 3))
            ok, msg = same_tris(got, want, scale * max(1.0, np.abs(inv).max()))
            check(ok, f"C10|{k}|then_subscene|triangles", f"subscene({node}) asked after {k}: {msg}")
        if len(T0):
            moved = s.copy()
            Mv = np.eye(4)
            Mv[:3, 3] = [3.0, -2.0, 5.0]
            moved.apply_transform(Mv)
            ok, msg = same_tris(moved.triangles, T0 + Mv[:3, 3], scale + 5.0)
            check(ok, f"C10|{k}|then_copy_apply_transform|triangles", f"a copy taken after {k} and moved by a translation: {msg}")


# ------------------------------------------------------------------------------- strategies


@st.composite
def scene_spec(draw, sim=True):
    n = draw(st.integers(1, 7))
    classes = ["rigid", "rigid", "translation", "rotation"] + (["similarity"] if sim else [])
    nodes = []
    geom_pool = draw(st.lists(st.sampled_from(["box", "tet", "prism", "ico", "cloud", "path3", "nofaces", "path2", "box#2", "tet#2", "box", "tet"]), min_size=1, max_size=4, unique=True))
    for i in range(n):
        M = np.array(draw(gm.matrix(classes=classes, tscale=5.0))["M"])
        if abs(np.linalg.det(M[:3, :3]) - 1) > 1e-6:
            s = abs(np.linalg.det(M[:3, :3])) ** (1 / 3)
            M[:3, :3] *= draw(st.sampled_from([0.5, 2.0, 3.0])) / s
        nodes.append({"parent": draw(st.one_of(st.none(), st.integers(0, 6), st.integers(0, max(i - 1, 0)))), "M": M.tolist(), "geom": draw(st.one_of(st.none(), st.sampled_from(geom_pool), st.sampled_from(geom_pool)))})
    if not any(nd["geom"] for nd in nodes):
        nodes[-1]["geom"] = geom_pool[0]
    return {"nodes": nodes}


@st.composite
def scene_case(draw):
    k = draw(st.sampled_from(["none", "copy", "scaled", "scaled", "convert_units", "subscene", "add", "rezero", "apply_transform", "history", "history"]))
    spec = draw(scene_spec())
    case = {"spec": spec, "warm": draw(st.booleans())}
    if k == "scaled":
        f = draw(st.one_of(st.sampled_from([0.5, 2.0, 10.0]), st.lists(st.sampled_from([0.5, 1.0, 2.0, 3.0]), min_size=3, max_size=3)))
        case["op"] = ["scaled", f]
    elif k == "subscene":
        case["op"] = ["subscene", draw(st.integers(0, 6))]
    elif k == "add":
        case["op"] = ["add", draw(st.sampled_from(["plus", "append2", "chain3", "append3", "append4"]))]
        case["spec2"] = draw(scene_spec())
    elif k == "apply_transform":
        case["op"] = ["apply_transform", draw(gm.matrix(classes=["rigid", "similarity", "translation", "mirror", "anisotropic"], tscale=5.0))]
    elif k == "history":
        steps = []
        for _ in range(draw(st.integers(1, 5))):
            t = draw(st.sampled_from(["edge", "edge", "edit_geometry", "scale_geometry", "scale_all", "delete", "add_geometry", "read", "read", "readd", "readd"]))
            if t == "scale_all":
                steps.append([t, draw(st.sampled_from([2.0, 0.5, 3.0]))])
            elif t in ("edge", "add_geometry"):
                steps.append([t, draw(st.integers(0, 6)), draw(gm.matrix(classes=["rigid", "translation", "similarity"], tscale=5.0))])
            else:
                steps.append([t, draw(st.integers(0, 6))])
        case["op"] = ["history", steps]
    else:
        case["op"] = [k]
    return case


@subcheck("C10", "scenes", shards={"quick": 12, "thorough": 16})
def s_scenes(ctx):
    ctx.given("C10.scene", scene_case(), n={"quick": 1800, "thorough": 40000})


def fixed_cases():
    """a nested, instanced scene with a rotated parent above translated children: every operation"""
    R = np.eye(4)
    R[:3, :3] = gm.rodrigues([1, 2, 3], 0.7)
    R[:3, 3] = [1, 2, 3]
    T1 = np.eye(4)
    T1[:3, 3] = [4, 0, 0]
    S = np.eye(4)
    S[:3, :3] *= 2.0
    S[:3, 3] = [0, 5, 0]
    T2 = np.eye(4)
    T2[:3, 3] = [0, 0, -3]
    spec = {"nodes": [
        {"parent": None, "M": R.tolist(), "geom": "box"},
        {"parent": 0, "M": T1.tolist(), "geom": "tet"},
        {"parent": 0, "M": S.tolist(), "geom": "box"},
        {"parent": 2, "M": T2.tolist(), "geom": "tet"},
        {"parent": None, "M": T2.tolist(), "geom": None},
        {"parent": 4, "M": R.tolist(), "geom": "prism"},
    ]}
    spec_rigid = {"nodes": [dict(n, M=(np.array(n["M"]) if i != 2 else T1).tolist() if i == 2 else n["M"]) for i, n in enumerate(spec["nodes"])]}
    ops = [["none"], ["copy"], ["scaled", 2.0], ["scaled", 0.5], ["scaled", [1.0, 2.0, 3.0]], ["scaled", [2.0, 2.0, 2.0]], ["convert_units"], ["rezero"], ["add"], ["add", "append3"], ["add", "chain3"], ["add", "append4"]]
    ops += [["subscene", i] for i in range(6)]
    H = np.eye(4)
    H[:3, :3] = gm.householder([1, 1, 0])
    ops += [["apply_transform", {"cls": "rigid", "M": R.tolist()}], ["apply_transform", {"cls": "similarity", "M": S.tolist()}], ["apply_transform", {"cls": "mirror", "M": H.tolist()}]]
    ops += [["history", [["read", 0], ["edge", 0, {"M": T1.tolist()}], ["edit_geometry", 0], ["scale_geometry", 1], ["add_geometry", 0, {"M": S.tolist()}], ["delete", 0]]]]
    spec_nofaces = {"nodes": [{"parent": None, "M": T1.tolist(), "geom": "nofaces"}] + spec_rigid["nodes"][:4]}
    ops = ops + [["history", [["read", 0], ["readd", 0], ["readd", 1], ["read", 0], ["readd", 2]]]]
    # two distinct geometry objects with identical content, and a planar path moved inside its own plane
    spec_twins = {"nodes": [{"parent": None, "M": T1.tolist(), "geom": "box"}, {"parent": None, "M": T2.tolist(), "geom": "box#2"}, {"parent": 0, "M": T1.tolist(), "geom": "tet"}, {"parent": 1, "M": T1.tolist(), "geom": "tet#2"}]}
    Tp = np.eye(4)
    Tp[:3, 3] = [3.0, -2.0, 0.0]
    Rz = np.eye(4)
    Rz[:3, :3] = gm.rodrigues([0, 0, 1], 0.6)
    Rz[:3, 3] = [1.0, 2.0, 0.0]
    spec_planar = {"nodes": [{"parent": None, "M": Tp.tolist(), "geom": "path2"}, {"parent": None, "M": Rz.tolist(), "geom": "path2"}, {"parent": None, "M": R.tolist(), "geom": "path2"}, {"parent": None, "M": T1.tolist(), "geom": "box"}]}
    ops = ops + [["history", [["read", 0], ["scale_all", 2.0], ["read", 0], ["scale_all", 0.5]]]]
    for sp in (spec, spec_rigid, spec_nofaces, spec_twins, spec_planar):
        for op in ops:
            for warm in (False, True):
                c = {"spec": sp, "warm": warm, "op": op}
                if op[0] == "add":
                    c["spec2"] = spec_rigid
                yield c


@subcheck("C10", "fixed_scene_all_ops", shards={"quick": 4, "thorough": 4})
def s_fixed(ctx):
    ctx.enumerate("C10.scene", fixed_cases(), label="nested_instanced_scene_x_every_operation")


REQUIRED_CLASSES["C10"] = ["op:scaled", "op:subscene", "op:add", "op:history", "instanced", "nested"]
