"""C03 — mass properties equal the exact integrals over the enclosed solid
(trimesh/triangles.py mass_properties, cross, area; trimesh/base.py density, center_mass, mass_properties,
moment_inertia_frame; trimesh/inertia.py transform_inertia)."""

import numpy as np
from hypothesis import strategies as st

import trimesh
from trimesh import inertia as tm_inertia
from trimesh import triangles as tm_triangles
from trimesh.constants import tol as tm_tol

from ..core import ASSUMPTIONS, REQUIRED_CLASSES, RULES, Violation, body, check, subcheck
from ..gen import matrices as gmat
from ..gen import meshes as gmesh
from ..oracle import c03_exact as ox

EPS = ox.EPS

RULES["C03"] = (
    "(a) every tetrahedron with integer vertex coordinates in {0..k-1}^12 (k=2 complete and k=3 on a seeded stride "
    "in quick, k=4 complete in thorough) and every two-triangle pillow in {0,1,2}^9, each passed alone to "
    "triangles.mass_properties (default call and call with center_mass=[0,0,0]); (b) Hypothesis: 1-3 closed oriented "
    "template surfaces (tetra, box, octa, icosphere, star prism, torus, uv-sphere, pillow; disjoint or overlapping), "
    "vertices as built / jittered / rounded to an integer lattice / replaced by random reals or random integers "
    "(self-intersecting but still closed and oriented), scaled by 1e-3..1e6, shifted up to 1000 diameters from the "
    "origin, faces permuted and cyclically rotated, density in [1e-3,1e3], centre-of-mass override, rigid frame. "
    "Oracle: exact rational signed-tetrahedra integrals (V=sum det/6, int x_i=sum det S_i/24, "
    "int x_i x_j=sum det(sum p_i p_j+S_i S_j)/120). Non-trivial: V != 0, all centre-of-mass coordinates non-zero and "
    "all three products of inertia about the centre of mass non-zero."
)
ASSUMPTIONS["C03"] = [
    "integer regime (integer coordinates, 240 m^5 n_faces < 2^53): every intermediate of the library's straight-line "
    "polynomials is exact, so the ten integrals are compared at 1 ulp and derived values at a few ulps of their terms",
    "float regime: |error of integral k| <= 64 eps * majorant_k, the majorant being the sum over faces of "
    "|n_i|-bound (2 e_j e_l, e = max |edge component|) times the number of monomials times max |coordinate| powers; "
    "64 >= number of roundings on any path for <= 1024 faces (edge 1, cross 2, polynomial <= 8, product 1, pairwise "
    "sum <= 22); derived tolerances are first-order propagation of these bounds",
    "centre of mass and inertia about it are only compared when |V| >= 1000 * tol(V) (otherwise ill-conditioned)",
    "centre-of-mass override c is read as: center_mass == c, volume/mass/area unchanged, and the reported tensor obeys "
    "the parallel-axis law with c as the centre (I_origin = I + m M(c)); this is the only reading under which the "
    "documented 'moment_inertia_frame(eye(4)) gives the moment at the origin' keeps holding with an override",
    "moment_inertia_frame(T) is R^T I_t R (tensor about the frame origin t expressed in the frame axes), "
    "transform_inertia(R, I) without parallel axis is R I R^T (tensor of the body moved by R, as cylinder_inertia uses it)",
    "meshes are built with process=False so that the surface handed in is the surface integrated",
]

# ======================================================================================= helpers


def _f(x):
    return float(x)


def _mat(I):
    return np.array([[float(x) for x in row] for row in I], dtype=np.float64)


def _bad(got, want, tol):
    """index of the first entry with |got-want| > tol (NaN counts as bad) or None"""
    got = np.asarray(got, dtype=np.float64)
    want = np.asarray(want, dtype=np.float64)
    tol = np.broadcast_to(np.asarray(tol, dtype=np.float64), want.shape)
    if got.shape != want.shape:
        return ("shape", got.shape)
    ok = np.abs(got - want) <= tol
    if ok.all():
        return None
    idx = tuple(int(i) for i in np.argwhere(~ok)[0])
    return idx


def _cmp0(got, want, tol, sig, what):
    b = _bad(got, want, tol)
    if b is not None:
        g = np.asarray(got, dtype=np.float64)
        w = np.asarray(want, dtype=np.float64)
        if b and b[0] == "shape":
            raise Violation(sig + "|shape", f"{what}: shape {g.shape} != {w.shape}")
        kind = ""
        if w.ndim == 2 and w.shape == (3, 3):
            kind = "|diag" if b[0] == b[1] else "|offdiag"
        t = np.broadcast_to(np.asarray(tol, dtype=np.float64), w.shape)
        raise Violation(
            sig + kind,
            f"{what}: entry {b}: got {g[b]!r} want {w[b]!r} |diff| {abs(g[b] - w[b]):.3e} > tol {t[b]:.3e}",
        )


class Model:
    """exact integrals + tolerances for one triangle soup (density 1)"""

    def __init__(self, T):
        self.T = T
        self.ex = ox.integrals(T)
        ex = self.ex
        self.A, self.Aarea, self.nmaj, self.areamaj = ox.majorants(T)
        self.exact = ox.exact_regime(T)
        self.I10 = np.array(
            [_f(ex.V)]
            + [_f(x) for x in ex.m1]
            + [_f(ex.m2[0][0]), _f(ex.m2[1][1]), _f(ex.m2[2][2])]
            + [_f(ex.m2[0][1]), _f(ex.m2[1][2]), _f(ex.m2[0][2])]
        )
        if self.exact:
            self.t10 = EPS * np.abs(self.I10)
        else:
            self.t10 = 64.0 * EPS * self.A
        self.V = self.I10[0]
        self.tV = self.t10[0]
        self.wellcond = abs(self.V) >= 1000.0 * self.tV and self.V != 0.0
        if self.wellcond:
            self.cm = np.array([_f(x) for x in ex.center_mass()])
            # c_k = m1_k / V : first-order propagation + rounding of the quotient
            self.tcm = (self.t10[1:4] + np.abs(self.cm) * self.tV) / abs(self.V) * 1.002 + 2 * EPS * np.abs(self.cm)
        else:
            self.cm = None
            self.tcm = None

    # second moments in matrix form and their tolerances
    def _m2(self):
        x = self.I10
        m2 = np.array([[x[4], x[7], x[9]], [x[7], x[5], x[8]], [x[9], x[8], x[6]]])
        t = self.t10
        t2 = np.array([[t[4], t[7], t[9]], [t[7], t[5], t[8]], [t[9], t[8], t[6]]])
        return m2, t2

    def inertia_at_centre(self, c, dc, density, exact_tensor):
        """tolerance of density*(I_origin - V M(c)) as the library can compute it, c known to +-dc.
        exact_tensor: the oracle value (3,3 float). Returns tol (3,3)."""
        m2, t2 = self._m2()
        V, tV = abs(self.V), self.tV
        c = np.abs(np.asarray(c, dtype=np.float64))
        dc = np.asarray(dc, dtype=np.float64)
        tolm = np.zeros((3, 3))
        for i in range(3):
            j, k = (i + 1) % 3, (i + 2) % 3
            mag = abs(m2[j, j]) + abs(m2[k, k]) + V * (c[j] ** 2 + c[k] ** 2)
            tolm[i, i] = (
                t2[j, j] + t2[k, k] + tV * (c[j] ** 2 + c[k] ** 2) + 2 * V * (c[j] * dc[j] + c[k] * dc[k]) + 8 * EPS * mag
            )
            for j2 in range(3):
                if j2 != i:
                    mag = abs(m2[i, j2]) + V * c[i] * c[j2]
                    tolm[i, j2] = t2[i, j2] + tV * c[i] * c[j2] + V * (c[i] * dc[j2] + c[j2] * dc[i]) + 8 * EPS * mag
        d = abs(density)
        return d * tolm + 2 * EPS * np.abs(exact_tensor)


def frame_oracle(model, I_c, tol_c, c, dc, mass, dmass, Tm):
    """R^T (I_c + mass M(t - c)) R exactly (Fractions) and a first-order tolerance.
    I_c: 3x3 of Fractions (already times density), c: exact centre used (list of Fractions), mass Fraction."""
    from fractions import Fraction

    Tm = np.asarray(Tm, dtype=np.float64)
    R = Tm[:3, :3]
    t = [Fraction(float(x)) for x in Tm[:3, 3]]
    a = [t[i] - c[i] for i in range(3)]
    M = ox.shift_matrix(a)
    aligned = [[I_c[i][j] + mass * M[i][j] for j in range(3)] for i in range(3)]
    want = _mat(ox.rotate_into_frame(aligned, R.tolist()))
    # tolerance
    af = np.abs(np.array([_f(x) for x in a]))
    cf = np.abs(np.array([_f(x) for x in c]))
    tf = np.abs(Tm[:3, 3])
    da = np.asarray(dc, dtype=np.float64) + EPS * (tf + cf)
    Mf = np.abs(_mat(M))
    dM = np.zeros((3, 3))
    for i in range(3):
        j, k = (i + 1) % 3, (i + 2) % 3
        dM[i, i] = 2 * (af[j] * da[j] + af[k] * da[k]) + 4 * EPS * (af[j] ** 2 + af[k] ** 2)
        for j2 in range(3):
            if j2 != i:
                dM[i, j2] = af[i] * da[j2] + af[j2] * da[i] + 4 * EPS * af[i] * af[j2]
    m = abs(_f(mass))
    Ic = np.abs(_mat(I_c))
    tolA = tol_c + m * dM + dmass * Mf + 4 * EPS * (Ic + m * Mf)
    magA = Ic + m * Mf
    Ra = np.abs(R)
    tol = Ra.T @ tolA @ Ra + 16 * EPS * (Ra.T @ magA @ Ra)
    return want, tol


# ======================================================================================= (a) integer grid


def _grid_case_arrays(case):
    kind = case.get("kind", "tet")
    nverts, faces = (4, ox.TET_FACES) if kind == "tet" else (3, ox.PILLOW_FACES)
    if "verts" in case:
        verts = np.array(case["verts"], dtype=np.int64).reshape((-1, nverts, 3))
    else:
        k = int(case["k"])
        total = k ** (3 * nverts)
        idx = int(case["start"]) + int(case["step"]) * np.arange(int(case["count"]), dtype=np.int64)
        idx = idx[idx < total]
        verts = ox.grid_vertices(k, idx, nverts)
    return kind, verts, verts[:, faces, :]  # (m, f, 3, 3)


@body("C03.grid")
def b_grid(case, ctx):
    """A block of small integer tetrahedra (or pillows), each handed alone to triangles.mass_properties.
    All the library's intermediates are small integers, so apart from the final divisions everything is exact."""
    kind, verts, tri = _grid_case_arrays(case)
    m = len(tri)
    if m == 0:
        return
    N0, N1, N2 = ox.batch_integer_numerators(tri)
    trif = tri.astype(np.float64)
    Vg = np.zeros(m)
    Cg = np.zeros((m, 3))
    Ig = np.zeros((m, 3, 3))
    Og = np.zeros((m, 3, 3))
    zero = np.zeros(3)
    mp = tm_triangles.mass_properties
    for q in range(m):
        r = mp(trif[q])
        Vg[q] = r.volume
        Cg[q] = r.center_mass
        Ig[q] = r.inertia
        Og[q] = mp(trif[q], center_mass=zero).inertia

    def fail(mask, sig, what, got, want):
        q = int(np.argwhere(mask.reshape(m, -1).any(axis=1))[0][0])
        raise Violation(
            f"C03.grid|{sig}|{kind}",
            f"{what}: vertices {verts[q].tolist()} got {np.asarray(got[q]).tolist()} exact {np.asarray(want[q]).tolist()} "
            f"(replay single: {{\"kind\": \"{kind}\", \"verts\": [{verts[q].tolist()}]}})",
        )

    n0 = N0.astype(np.float64)
    n1 = N1.astype(np.float64)
    n2 = N2.astype(np.float64)
    # volume: one correctly rounded division of an exact integer
    Vx = n0 / 6.0
    bad = ~(np.abs(Vg - Vx) <= EPS * np.abs(Vx))
    if bad.any():
        fail(bad, "volume", "volume", Vg, Vx)
    # second moments about the origin (center_mass=[0,0,0] -> nothing subtracted): inertia = tr(m2) 1 - m2
    m2 = n2 / 120.0
    Ox = -m2.copy()
    for i in range(3):
        j, k2 = (i + 1) % 3, (i + 2) % 3
        Ox[:, i, i] = (N2[:, j, j] + N2[:, k2, k2]).astype(np.float64) / 120.0
    tolO = EPS * np.abs(m2)
    for i in range(3):
        j, k2 = (i + 1) % 3, (i + 2) % 3
        tolO[:, i, i] = 2 * EPS * (np.abs(m2[:, j, j]) + np.abs(m2[:, k2, k2]))
    bad = ~(np.abs(Og - Ox) <= tolO)
    if bad.any():
        q = int(np.argwhere(bad.reshape(m, -1).any(axis=1))[0][0])
        ij = np.argwhere(bad[q])[0]
        fail(bad, "inertia_origin|" + ("diag" if ij[0] == ij[1] else "offdiag"), "inertia with center_mass=[0,0,0]", Og, Ox)
    # flat tetrahedra / pillows: exact volume 0 -> centre of mass reported at the origin, all moments exactly zero
    flat = N0 == 0
    nz = ~flat
    if flat.any():
        bad = flat & ((Cg != 0).any(axis=1) | (Ig != 0).any(axis=(1, 2)))
        if bad.any():
            fail(bad, "flat", "zero-volume surface: centre/inertia not zero", Ig, np.zeros_like(Ig))
    if nz.any():
        # centre of mass = N1 / (4 N0), two roundings in the library (integral/24, /volume)
        Cx = n1[nz] / (4.0 * n0[nz])[:, None]
        bad = np.zeros(m, dtype=bool)
        bad[nz] = ~(np.abs(Cg[nz] - Cx) <= 4 * EPS * np.abs(Cx)).all(axis=1)
        if bad.any():
            Cfull = np.zeros((m, 3))
            Cfull[nz] = Cx
            fail(bad, "center_mass", "center_mass", Cg, Cfull)
        # inertia about the centre of mass: J_ij = N2_ij/120 - N1_i N1_j/(96 N0) = (4 N0 N2_ij - 5 N1_i N1_j)/(480 N0)
        num = 4 * N0[nz, None, None] * N2[nz] - 5 * N1[nz, :, None] * N1[nz, None, :]
        J = num.astype(np.float64) / (480.0 * n0[nz])[:, None, None]
        Ix = -J
        for i in range(3):
            j, k2 = (i + 1) % 3, (i + 2) % 3
            Ix[:, i, i] = (num[:, j, j] + num[:, k2, k2]).astype(np.float64) / (480.0 * n0[nz])
        # tolerance: 8 eps * (sum of the absolute terms the library combines)
        am2 = np.abs(m2[nz])
        cc = np.abs(n1[nz, :, None] * n1[nz, None, :]) / (96.0 * np.abs(n0[nz]))[:, None, None]
        tolI = 8 * EPS * (am2 + cc)
        for i in range(3):
            j, k2 = (i + 1) % 3, (i + 2) % 3
            tolI[:, i, i] = 8 * EPS * (am2[:, j, j] + am2[:, k2, k2] + cc[:, j, j] + cc[:, k2, k2])
        badn = ~(np.abs(Ig[nz] - Ix) <= tolI)
        if badn.any():
            bad = np.zeros((m, 3, 3), dtype=bool)
            bad[nz] = badn
            Ifull = np.zeros((m, 3, 3))
            Ifull[nz] = Ix
            q = int(np.argwhere(bad.reshape(m, -1).any(axis=1))[0][0])
            ij = np.argwhere(bad[q])[0]
            fail(bad, "inertia_cm|" + ("diag" if ij[0] == ij[1] else "offdiag"), "inertia about centre of mass", Ig, Ifull)
        nontriv = int(((N1[nz] != 0).all(axis=1) & (num[:, 0, 1] != 0) & (num[:, 1, 2] != 0) & (num[:, 0, 2] != 0)).sum())
    else:
        nontriv = 0
    # bookkeeping: a block stands for m evaluations
    label = f"grid:{kind}:k{case['k']}" if "k" in case else f"grid:{kind}:explicit"
    ctx.evaluations += m - 1
    ctx.per_body["C03.grid"] += m - 1
    ctx.classes[label] += m
    ctx.classes[label + ":flat"] += int(flat.sum())
    ctx.classes[label + ":negative_volume"] += int((N0 < 0).sum())
    ctx.classes[label + ":nontrivial"] += nontriv
    if nontriv:
        ctx.note(nontrivial=True, cls=label + ":blocks")
        if ctx._in_enum:
            ctx.nontrivial_enum += nontriv - 1
    else:
        ctx.note(cls=label + ":blocks")


def _blocks(kind, k, step, offset, block=2048):
    nverts = 4 if kind == "tet" else 3
    total = k ** (3 * nverts)
    n = (total - offset + step - 1) // step  # number of sampled indices
    for b in range(0, n, block):
        yield {"kind": kind, "k": k, "start": offset + b * step, "step": step, "count": min(block, n - b)}


# ======================================================================================= (b) generated meshes

KINDS = ["tetra", "box", "octa", "icos", "prism", "torus", "uvsphere", "pillow"]


def build_case(case):
    V, F = gmesh.build(case["spec"])
    pl = case["placement"]
    rs = np.random.RandomState(int(case["seed"]) & 0x7FFFFFFF)
    if pl["mode"] == "random":
        V = rs.uniform(-1.0, 1.0, V.shape)
    elif pl["mode"] == "randint":
        V = rs.randint(-int(pl["m"]), int(pl["m"]) + 1, V.shape).astype(np.float64)
    V = V * float(case["scale"]) + np.asarray(case["shift"], dtype=np.float64)
    perm = rs.permutation(len(F))
    F = F[perm]
    rot = rs.randint(0, 3, len(F))
    F = np.array([np.roll(f, -int(k)) for f, k in zip(F, rot)], dtype=np.int64).reshape((-1, 3))
    return np.ascontiguousarray(V, dtype=np.float64), np.ascontiguousarray(F)


def _classes(case, V, F, model):
    spec = case["spec"]
    kinds = [p["kind"] for p in spec["parts"]]
    cl = ["placement:" + case["placement"]["mode"], "coords:" + ("int_exact" if model.exact else "float")]
    if case["placement"]["mode"] == "template":
        cl.append("genus:1" if "torus" in kinds else "genus:0")
        if "pillow" in kinds:
            cl.append("kind:pillow")
        if len(kinds) > 1:
            cl.append("bodies:multi")
            cl.append("overlap:yes" if case["overlap"] else "overlap:no")
        if spec.get("lattice"):
            cl.append("lattice")
    if not model.exact:
        s = float(case["scale"])
        cl.append("scale:1e%+d" % int(np.floor(np.log10(s) + 0.5)))
    ext = float(np.ptp(V, axis=0).max()) if len(V) else 0.0
    far = float(np.abs(V).max()) / ext if ext > 0 else 0.0
    cl.append("far:>=100_diameters" if far >= 100 else "far:>=10_diameters" if far >= 10 else "far:near_origin")
    cl.append("cond:well" if model.wellcond else "cond:volume_below_1000tol")
    cl.append("frame:" + case["frame"]["cls"])
    cl.append("faces:%s" % ("<=20" if len(F) <= 20 else "<=100" if len(F) <= 100 else ">100"))
    return cl


@body("C03.mesh")
def b_mesh(case, ctx):
    from fractions import Fraction

    V, F = build_case(case)
    T = V[F]
    model = Model(T)
    ex = model.ex
    exact = model.exact
    nontriv = False
    if model.wellcond:
        Icm_x = ex.inertia_cm()
        nontriv = all(x != 0 for x in ex.m1) and Icm_x[0][1] != 0 and Icm_x[1][2] != 0 and Icm_x[0][2] != 0
    ctx.note(nontrivial=nontriv, cls=_classes(case, V, F, model))
    deferred = None
    frame = np.array(case["frame"]["M"], dtype=np.float64)
    shift = np.asarray(case["shift"], dtype=np.float64)
    frame[:3, 3] = frame[:3, 3] * float(case["scale"]) + (shift if case["frame_at_mesh"] else 0.0)
    if case["cm_mode"] == "origin":
        c = np.zeros(3)
    elif case["cm_mode"] == "shift":
        c = shift.copy()
    else:
        c = shift + np.asarray(case["cm"], dtype=np.float64) * float(case["scale"])
    d = float(case["density"])
    d2 = float(case["density2"])
    # gradual underflow: a product below 2^-1022 has an absolute error of up to 2^-1075 that the relative model does
    # not cover; whatever is multiplied onto it afterwards is bounded by the magnitudes below
    U = (
        64 * 2.0**-1022 * (1 + float(np.abs(T).max())) ** 5 * (1 + max(abs(d), abs(d2)))
        * (1 + float(np.abs(c).max())) ** 2 * (1 + float(np.abs(frame[:3, 3]).max())) ** 2
    )

    def _cmp(got, want, tol, sig, what):  # noqa: F811  (shadows the module level comparator, adds the underflow floor)
        _cmp0(got, want, np.asarray(tol, dtype=np.float64) + U, sig, what)

    # ---- cross products and triangle areas
    crosses_x = ox.cross_sq_exact(T)
    nx = np.array([[_f(x) for x in n] for _, n in crosses_x]).reshape((-1, 3))
    tc = tm_triangles.cross(T)
    _cmp(tc, nx, (0.0 if exact else 4 * EPS) * model.nmaj, "C03.mesh|cross", "triangles.cross")
    area_x, per_x = ox.area_exact(T)
    per_x = np.array(per_x)
    tol_face = 8 * EPS * model.areamaj
    _cmp(tm_triangles.area(T), per_x, tol_face, "C03.mesh|area|triangles", "triangles.area(triangles)")
    _cmp(tm_triangles.area(crosses=tc), per_x, tol_face, "C03.mesh|area|crosses", "triangles.area(crosses=)")

    mesh = trimesh.Trimesh(vertices=V, faces=F, process=False)
    tol_area = 64 * EPS * model.Aarea
    _cmp(mesh.area, area_x, tol_area, "C03.mesh|Trimesh.area", "Trimesh.area")
    _cmp(mesh.area_faces, per_x, tol_face, "C03.mesh|Trimesh.area_faces", "Trimesh.area_faces")

    # ---- default density / centre
    Vx, tV = model.V, model.tV

    def check_state(tag, density, override):
        """compare every mass quantity of `mesh` in its current state with the oracle"""
        nonlocal deferred
        d = float(density)
        dF = Fraction(d)
        sig = "C03.mesh|"
        _cmp(mesh.volume, Vx, tV, sig + "volume|" + tag, "Trimesh.volume")
        check(float(mesh.density) == d, sig + "density|" + tag, f"density {mesh.density!r} != {d!r}")
        tm = abs(d) * tV + 2 * EPS * abs(d * Vx)
        _cmp(mesh.mass, d * Vx, tm, sig + "mass|" + tag, f"Trimesh.mass (density {d})")
        got_c = np.array(mesh.center_mass, dtype=np.float64)
        check(got_c.shape == (3,), sig + "center_mass|shape|" + tag, str(got_c.shape))
        centre = None  # (floats, tolerance, exact Fractions) of the centre the library reports
        if override is not None:
            check(np.array_equal(got_c, override), sig + "center_mass|override_not_honoured", f"got {got_c.tolist()} set {override.tolist()}")
            centre = (override, np.zeros(3), [Fraction(float(x)) for x in override])
        elif model.wellcond:
            if abs(float(mesh.volume)) < tm_tol.zero and not got_c.any():
                # absolute zero-volume shortcut of the library taken although the solid is well conditioned
                if (np.abs(model.cm) > model.tcm).any():
                    if deferred is None:
                        deferred = Violation(
                            sig + "center_mass|abs_volume_threshold",
                            f"volume {float(mesh.volume)!r} (exact {Vx!r}, tolerance {tV:.3e}) is below tol.zero={tm_tol.zero}: "
                            f"center_mass reported as origin, exact {model.cm.tolist()}",
                        )
                    centre = (np.zeros(3), np.zeros(3), [Fraction(0)] * 3)
            if centre is None:
                _cmp(got_c, model.cm, model.tcm, sig + "center_mass|" + tag, "Trimesh.center_mass")
                centre = (model.cm, model.tcm, ex.center_mass())
        if centre is None:
            return  # ill-conditioned centre: nothing more can be said without dividing by ~0
        cf, dc, cF = centre
        I_c = ex.inertia_centre_convention(cF)
        I_cd = [[dF * x for x in row] for row in I_c]
        want = _mat(I_cd)
        tolI = model.inertia_at_centre(cf, dc, d, want)
        got = np.array(mesh.moment_inertia, dtype=np.float64)
        _cmp(got, want, tolI, sig + "moment_inertia|" + tag, f"Trimesh.moment_inertia (density {d})")
        mp = mesh.mass_properties
        check(
            np.array_equal(mp["inertia"], got) and mp["volume"] == mesh.volume and mp["mass"] == mesh.mass
            and np.array_equal(mp["center_mass"], got_c) and float(mp["density"]) == d and np.array_equal(mp.inertia, got),
            sig + "mass_properties|fields|" + tag,
            "mass_properties fields differ from the Trimesh attributes",
        )
        massF = dF * ex.V
        frames = [("identity", np.eye(4)), (case["frame"]["cls"], frame)]
        for fcls, Tm in frames:
            wantF, tolF = frame_oracle(model, I_cd, tolI, cF, dc, massF, tm, Tm)
            gotF = mesh.moment_inertia_frame(Tm)
            _cmp(gotF, wantF, tolF, sig + f"moment_inertia_frame|{tag}|{'identity' if fcls == 'identity' else 'rigid'}", f"moment_inertia_frame({fcls}) density {d}")

    check_state("default", 1.0, None)
    mesh.density = d
    check_state("density", d, None)
    mesh.center_mass = c
    check_state("override", d, c)
    _cmp(mesh.area, area_x, tol_area, "C03.mesh|Trimesh.area|override", "Trimesh.area after overrides")

    # ---- triangles.mass_properties options on the raw triangles
    r = tm_triangles.mass_properties(T, skip_inertia=True)
    check(r.inertia is None, "C03.mesh|triangles.mass_properties|skip_inertia|inertia_present", "inertia returned with skip_inertia=True")
    _cmp(r.volume, Vx, tV, "C03.mesh|triangles.mass_properties|skip_inertia|volume", "volume (skip_inertia)")
    _cmp(r.mass, Vx, tV, "C03.mesh|triangles.mass_properties|skip_inertia|mass", "mass (skip_inertia)")
    if model.wellcond and not (abs(float(r.volume)) < tm_tol.zero):
        _cmp(r.center_mass, model.cm, model.tcm, "C03.mesh|triangles.mass_properties|skip_inertia|center_mass", "center_mass (skip_inertia)")
    # caller-supplied cross products ((b-a) x (c-a), evaluated here), density and centre given as arguments
    my_cross = np.cross(T[:, 1] - T[:, 0], T[:, 2] - T[:, 0])
    r = tm_triangles.mass_properties(T, crosses=my_cross, density=d2, center_mass=c)
    d2F = Fraction(d2)
    _cmp(r.volume, Vx, tV, "C03.mesh|triangles.mass_properties|crosses|volume", "volume (crosses=)")
    _cmp(r.mass, d2 * Vx, abs(d2) * tV + 2 * EPS * abs(d2 * Vx), "C03.mesh|triangles.mass_properties|crosses|mass", "mass (crosses=, density=)")
    check(np.array_equal(r.center_mass, c), "C03.mesh|triangles.mass_properties|crosses|center_mass", "center_mass argument not returned")
    cF = [Fraction(float(x)) for x in c]
    want = _mat([[d2F * x for x in row] for row in ex.inertia_centre_convention(cF)])
    _cmp(r.inertia, want, model.inertia_at_centre(c, np.zeros(3), d2, want), "C03.mesh|triangles.mass_properties|crosses|inertia", "inertia (crosses=, density=, center_mass=)")

    # ---- transform_inertia without parallel axis: tensor of the body moved by R is R I R^T
    if model.wellcond:
        X = np.array(tm_triangles.mass_properties(T).inertia, dtype=np.float64)
        R = frame[:3, :3]
        XF = [[Fraction(float(x)) for x in row] for row in X]
        want = _mat(ox.rotate_body(XF, R.tolist()))
        tolR = 16 * EPS * (np.abs(R) @ np.abs(X) @ np.abs(R).T)
        for name, Tm in (("4x4", frame), ("3x3", R)):
            _cmp(tm_inertia.transform_inertia(Tm, X), want, tolR, "C03.mesh|transform_inertia|rotate|" + name, f"transform_inertia({name}) vs R I R^T")

    if deferred is not None:
        raise deferred


@st.composite
def mesh_case(draw, scales=None, modes=None):
    overlap = draw(st.booleans())
    spec = draw(gmesh.mesh_spec(kinds=KINDS, max_parts=3, lattice=True, disjoint=not overlap, max_faces=200))
    mode = draw(st.sampled_from(modes or ["template", "template", "template", "random", "randint"]))
    case = {"spec": spec, "overlap": overlap, "seed": draw(st.integers(0, 2**31 - 1))}
    integer = False
    if mode == "randint":
        case["placement"] = {"mode": mode, "m": draw(st.sampled_from([1, 2, 3, 10, 100]))}
        integer = True
    else:
        case["placement"] = {"mode": mode}
        if mode == "template":
            if spec.get("lattice"):
                integer = True
            elif draw(st.booleans()):
                spec["place"] = draw(gmat.matrix(classes=["rotation", "rigid"], tscale=1.0))["M"]
    k = draw(st.sampled_from([0, 0, 0, 1, 30, 1000]))
    direction = [draw(st.floats(-1, 1, allow_nan=False)) for _ in range(3)]
    if integer:
        case["scale"] = 1.0
        case["shift"] = [float(round(k * x)) for x in direction]
    else:
        s = draw(st.one_of(st.sampled_from(scales or [1e-3, 1.0, 1e3, 1e6]), st.floats(-3.0, 6.0).map(lambda u: 10.0**u) if scales is None else st.sampled_from(scales)))
        case["scale"] = s
        case["shift"] = [k * s * x for x in direction]
    case["density"] = draw(st.one_of(st.sampled_from([2.0, 0.5, 1000.0, 0.001]), st.floats(1e-3, 1e3, allow_nan=False)))
    case["density2"] = draw(st.one_of(st.sampled_from([1.0, 3.0]), st.floats(1e-3, 1e3, allow_nan=False)))
    case["cm_mode"] = draw(st.sampled_from(["rel", "rel", "rel", "origin", "shift"]))
    case["cm"] = [draw(st.floats(-3, 3, allow_nan=False)) for _ in range(3)]
    case["frame"] = draw(gmat.matrix(classes=["rigid", "rigid", "rotation", "translation", "identity"]))
    case["frame_at_mesh"] = draw(st.booleans())
    return case


@subcheck("C03", "mesh", shards={"quick": 12, "thorough": 16})
def s_mesh(ctx):
    ctx.given("C03.mesh", mesh_case(), n={"quick": 3600, "thorough": 120000})


@subcheck("C03", "small_scale", shards={"quick": 2, "thorough": 4})
def s_small(ctx):
    # solids whose volume is small in absolute terms (10 micron features in metre units)
    ctx.given("C03.mesh", mesh_case(scales=[1e-6, 1e-5, 1e-4], modes=["template", "template", "random"]), n={"quick": 400, "thorough": 8000})


# ======================================================================================= oracle self-check


@body("C03.oracle")
def b_oracle(case, ctx):
    """Harness self-check (a failure here is a harness error): fast integer path == Fraction path, and
    analytic values of a box and of the unit right tetrahedron."""
    from fractions import Fraction

    V, F = build_case(case)
    T = V[F]
    a, b = ox.integrals(T), ox.integrals_fraction(T)
    assert a.V == b.V and a.m1 == b.m1 and a.m2 == b.m2, "fast path differs from Fraction path"
    Vb, Fb = gmesh.box((2.0, 3.0, 4.0))
    e = ox.integrals((Vb + [1.0, 2.0, 3.0])[Fb])
    assert e.V == 24 and e.center_mass() == [1, 2, 3]
    assert e.inertia_cm() == [[50, 0, 0], [0, 40, 0], [0, 0, 26]]
    assert e.inertia_about([0, 0, 0])[0][0] == 50 + 24 * (4 + 9) and e.inertia_about([0, 0, 0])[0][1] == -24 * 2
    Vt, Ft = gmesh.tetra()
    e = ox.integrals(Vt[Ft])
    assert e.V == Fraction(1, 6) and e.m1 == [Fraction(1, 24)] * 3
    assert e.m2[0][0] == Fraction(1, 60) and e.m2[0][1] == Fraction(1, 120)
    ctx.note(cls="oracle_selfcheck")


@subcheck("C03", "oracle", shards={"quick": 1, "thorough": 1})
def s_oracle(ctx):
    ctx.given("C03.oracle", mesh_case(), n={"quick": 40, "thorough": 400})


# registered last: the Hypothesis sub-checks above are scheduled first, the long enumeration fills the remaining workers
@subcheck("C03", "grid", shards={"quick": 10, "thorough": 16})
def s_grid(ctx):
    ctx.enumerate("C03.grid", _blocks("tet", 2, 1, 0, block=512), label="tetra_grid_{0,1}^12")
    ctx.enumerate("C03.grid", _blocks("pillow", 3, 1, 0, block=1024), label="pillow_grid_{0,1,2}^9")
    if ctx.tier == "quick":
        step = 4  # coprime with 3: every digit position takes every value
        ctx.enumerate("C03.grid", _blocks("tet", 3, step, ctx.seed % step), label="tetra_grid_{0,1,2}^12_stride4", complete=False)
    else:
        ctx.enumerate("C03.grid", _blocks("tet", 3, 1, 0), label="tetra_grid_{0,1,2}^12")
        ctx.enumerate("C03.grid", _blocks("tet", 4, 1, 0), label="tetra_grid_{0,1,2,3}^12")
        ctx.enumerate("C03.grid", _blocks("pillow", 4, 1, 0), label="pillow_grid_{0,1,2,3}^9")


REQUIRED_CLASSES["C03"] = [
    "grid:tet:k2",
    "grid:tet:k2:nontrivial",
    "grid:tet:k2:flat",
    "grid:tet:k2:negative_volume",
    "grid:tet:k3:nontrivial",
    "grid:pillow:k3",
    "coords:int_exact",
    "coords:float",
    "placement:random",
    "placement:randint",
    "genus:1",
    "kind:pillow",
    "bodies:multi",
    "overlap:yes",
    "lattice",
    "scale:1e-3",
    "scale:1e+6",
    "far:>=100_diameters",
    "cond:well",
    "cond:volume_below_1000tol",
    "frame:rigid",
]
