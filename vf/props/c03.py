"""C03 — mass properties equal the exact integrals over the enclosed solid
(trimesh/triangles.py mass_properties, cross, area; trimesh/base.py density, center_mass, mass_properties,
moment_inertia_frame; trimesh/inertia.py transform_inertia)."""

import numpy as np
from hypothesis import strategies as st

import trimesh
from trimesh import inertia as tm_inertia
from trimesh import triangles as tm_triangles
from trimesh.constants import tol as tm_tol

from ..core import ASSUMPTIONS, REQUIRED_CLASSES, RULES, Violation, body, check, subcheck
from ..gen import matrices as gmat
from ..gen import meshes as gmesh
from ..oracle import c03_exact as ox

EPS = ox.EPS

RULES["C03"] = (
    "(a) every tetrahedron with integer vertex coordinates in {0..k-1}^12 (k=2 complete and k=3 on a seeded stride "
    "in quick, k=4 complete in thorough) and every two-triangle pillow in {0,1,2}^9, each passed alone to "
    "triangles.mass_properties (default call and call with center_mass=[0,0,0]); (b) Hypothesis: 1-3 closed oriented "
    "template surfaces (tetra, box, octa, icosphere, star prism, torus, uv-sphere, pillow; disjoint or overlapping), "
    "vertices as built / jittered / rounded to an integer lattice / replaced by random reals or random integers "
    "(self-intersecting but still closed and oriented), scaled by 1e-3..1e6, shifted up to 1000 diameters from the "
    "origin, faces permuted and cyclically rotated, density in [1e-3,1e3] or one of 0, -0.0, negative, 1e-300, the largest "
    "power of two that keeps results finite, integer-typed; centre-of-mass override (incl. exactly the origin), rigid frame. "
    "Oracle: exact rational signed-tetrahedra integrals (V=sum det/6, int x_i=sum det S_i/24, "
    "int x_i x_j=sum det(sum p_i p_j+S_i S_j)/120). Non-trivial: V != 0, all centre-of-mass coordinates non-zero and "
    "all three products of inertia about the centre of mass non-zero. (c) warm objects: one mesh object read "
    "(volume, area, normals, cross products ...) and then moved by 1-3 of apply_transform (all matrix classes incl. "
    "uniform scale, mirror, shear, integer similarity; matrix written as float64/float32/int/list/...), apply_scale, "
    "apply_translation; after every step all quantities are compared with the exact integrals of the vertices and "
    "faces the object holds now. (d) representations: every array / scalar argument (triangles, crosses, center_mass, "
    "density, vertices, faces, frame, tensor, rotation) written as float64 / float32 / float16 / int64 / int32 array, "
    "nested (int) list, read-only, Fortran-ordered or strided array whenever that holds exactly the same numbers "
    "(values pre-rounded to float32/float16 in 2/3 of the cases); oracle = exact integrals of those numbers at float64 accuracy."
)
ASSUMPTIONS["C03"] = [
    "integer regime (integer coordinates, 240 m^5 n_faces < 2^53): every intermediate of the library's straight-line "
    "polynomials is exact, so the ten integrals are compared at 1 ulp and derived values at a few ulps of their terms",
    "float regime: |error of integral k| <= 64 eps * majorant_k, the majorant being the sum over faces of "
    "|n_i|-bound (2 e_j e_l, e = max |edge component|) times the number of monomials times max |coordinate| powers; "
    "64 >= number of roundings on any path for <= 1024 faces (edge 1, cross 2, polynomial <= 8, product 1, pairwise "
    "sum <= 22); derived tolerances are first-order propagation of these bounds",
    "centre of mass and inertia about it are only compared when |V| >= 1000 * tol(V) (otherwise ill-conditioned)",
    "centre-of-mass override c is read as: center_mass == c, volume/mass/area unchanged, and the reported tensor obeys "
    "the parallel-axis law with c as the centre (I_origin = I + m M(c)); this is the only reading under which the "
    "documented 'moment_inertia_frame(eye(4)) gives the moment at the origin' keeps holding with an override",
    "moment_inertia_frame(T) is R^T I_t R (tensor about the frame origin t expressed in the frame axes), "
    "transform_inertia(R, I) without parallel axis is R I R^T (tensor of the body moved by R, as cylinder_inertia uses it)",
    "meshes are built with process=False so that the surface handed in is the surface integrated",
    "triangles.cross is treated as a primitive on arrays: only float64 / int64 layouts are handed to it directly "
    "(no promise that it converts lists or widens float32)",
    "after a transform the carried-along centre-of-mass override is taken as reported (whether it moved with the mesh is C04)",
]

# ======================================================================================= helpers


def _f(x):
    return float(x)


def _mat(I):
    return np.array([[float(x) for x in row] for row in I], dtype=np.float64)


def _bad(got, want, tol):
    """index of the first entry with |got-want| > tol (NaN counts as bad) or None"""
    got = np.asarray(got, dtype=np.float64)
    want = np.asarray(want, dtype=np.float64)
    tol = np.broadcast_to(np.asarray(tol, dtype=np.float64), want.shape)
    if got.shape != want.shape:
        return ("shape", got.shape)
    ok = np.abs(got - want) <= tol
    if ok.all():
        return None
    idx = tuple(int(i) for i in np.argwhere(~ok)[0])
    return idx


def _cmp0(got, want, tol, sig, what):
    b = _bad(got, want, tol)
    if b is not None:
        g = np.asarray(got, dtype=np.float64)
        w = np.asarray(want, dtype=np.float64)
        if b and b[0] == "shape":
            raise Violation(sig + "|shape", f"{what}: shape {g.shape} != {w.shape}")
        kind = ""
        if w.ndim == 2 and w.shape == (3, 3):
            kind = "|diag" if b[0] == b[1] else "|offdiag"
        t = np.broadcast_to(np.asarray(tol, dtype=np.float64), w.shape)
        raise Violation(
            sig + kind,
            f"{what}: entry {b}: got {g[b]!r} want {w[b]!r} |diff| {abs(g[b] - w[b]):.3e} > tol {t[b]:.3e}",
        )


class Model:
    """exact integrals + tolerances for one triangle soup (density 1)"""

    def __init__(self, T):
        self.T = T
        self.ex = ox.integrals(T)
        ex = self.ex
        self.A, self.Aarea, self.nmaj, self.areamaj = ox.majorants(T)
        self.exact = ox.exact_regime(T)
        self.I10 = np.array(
            [_f(ex.V)]
            + [_f(x) for x in ex.m1]
            + [_f(ex.m2[0][0]), _f(ex.m2[1][1]), _f(ex.m2[2][2])]
            + [_f(ex.m2[0][1]), _f(ex.m2[1][2]), _f(ex.m2[0][2])]
        )
        if self.exact:
            self.t10 = EPS * np.abs(self.I10)
        else:
            self.t10 = 64.0 * EPS * self.A
        self.V = self.I10[0]
        self.tV = self.t10[0]
        self.wellcond = abs(self.V) >= 1000.0 * self.tV and self.V != 0.0
        if self.wellcond:
            self.cm = np.array([_f(x) for x in ex.center_mass()])
            # c_k = m1_k / V : first-order propagation + rounding of the quotient
            self.tcm = (self.t10[1:4] + np.abs(self.cm) * self.tV) / abs(self.V) * 1.002 + 2 * EPS * np.abs(self.cm)
        else:
            self.cm = None
            self.tcm = None

    # second moments in matrix form and their tolerances
    def _m2(self):
        x = self.I10
        m2 = np.array([[x[4], x[7], x[9]], [x[7], x[5], x[8]], [x[9], x[8], x[6]]])
        t = self.t10
        t2 = np.array([[t[4], t[7], t[9]], [t[7], t[5], t[8]], [t[9], t[8], t[6]]])
        return m2, t2

    def inertia_at_centre(self, c, dc, density, exact_tensor):
        """tolerance of density*(I_origin - V M(c)) as the library can compute it, c known to +-dc.
        exact_tensor: the oracle value (3,3 float). Returns tol (3,3)."""
        m2, t2 = self._m2()
        V, tV = abs(self.V), self.tV
        c = np.abs(np.asarray(c, dtype=np.float64))
        dc = np.asarray(dc, dtype=np.float64)
        tolm = np.zeros((3, 3))
        for i in range(3):
            j, k = (i + 1) % 3, (i + 2) % 3
            mag = abs(m2[j, j]) + abs(m2[k, k]) + V * (c[j] ** 2 + c[k] ** 2)
            tolm[i, i] = (
                t2[j, j] + t2[k, k] + tV * (c[j] ** 2 + c[k] ** 2) + 2 * V * (c[j] * dc[j] + c[k] * dc[k]) + 8 * EPS * mag
            )
            for j2 in range(3):
                if j2 != i:
                    mag = abs(m2[i, j2]) + V * c[i] * c[j2]
                    tolm[i, j2] = t2[i, j2] + tV * c[i] * c[j2] + V * (c[i] * dc[j2] + c[j2] * dc[i]) + 8 * EPS * mag
        d = abs(density)
        return d * tolm + 2 * EPS * np.abs(exact_tensor)


def frame_oracle(model, I_c, tol_c, c, dc, mass, dmass, Tm):
    """R^T (I_c + mass M(t - c)) R exactly (Fractions) and a first-order tolerance.
    I_c: 3x3 of Fractions (already times density), c: exact centre used (list of Fractions), mass Fraction."""
    from fractions import Fraction

    Tm = np.asarray(Tm, dtype=np.float64)
    R = Tm[:3, :3]
    t = [Fraction(float(x)) for x in Tm[:3, 3]]
    a = [t[i] - c[i] for i in range(3)]
    M = ox.shift_matrix(a)
    aligned = [[I_c[i][j] + mass * M[i][j] for j in range(3)] for i in range(3)]
    want = _mat(ox.rotate_into_frame(aligned, R.tolist()))
    # tolerance
    af = np.abs(np.array([_f(x) for x in a]))
    cf = np.abs(np.array([_f(x) for x in c]))
    tf = np.abs(Tm[:3, 3])
    da = np.asarray(dc, dtype=np.float64) + EPS * (tf + cf)
    Mf = np.abs(_mat(M))
    dM = np.zeros((3, 3))
    for i in range(3):
        j, k = (i + 1) % 3, (i + 2) % 3
        dM[i, i] = 2 * (af[j] * da[j] + af[k] * da[k]) + 4 * EPS * (af[j] ** 2 + af[k] ** 2)
        for j2 in range(3):
            if j2 != i:
                dM[i, j2] = af[i] * da[j2] + af[j2] * da[i] + 4 * EPS * af[i] * af[j2]
    m = abs(_f(mass))
    Ic = np.abs(_mat(I_c))
    tolA = tol_c + m * dM + dmass * Mf + 4 * EPS * (Ic + m * Mf)
    magA = Ic + m * Mf
    Ra = np.abs(R)
    tol = Ra.T @ tolA @ Ra + 16 * EPS * (Ra.T @ magA @ Ra)
    return want, tol


def underflow_floor(T, *others):
    """gradual underflow: a product below 2^-1022 has an absolute error of up to 2^-1075 that the relative model does
    not cover; whatever is multiplied onto it afterwards is bounded by the magnitudes given"""
    u = 64 * 2.0**-1022 * (1 + float(np.abs(T).max())) ** 5
    for o, power in others:
        u *= (1 + float(np.max(np.abs(o)))) ** power
    return u


FLOOR = 2.0**-1060  # a few thousand units of the smallest subnormal: results that are themselves subnormal


def resolve_density(x, T, extra=0.0):
    """a density of the case: a number, or "huge" = the largest power of two that keeps every result finite
    (|V| <= n m^3, squared distances <= 3 (m + e)^2 with m = max |coordinate|, e = max |centre / frame origin|)"""
    if x != "huge":
        return float(x)
    m = 1.0 + float(np.abs(T).max())
    e = 1.0 + float(np.max(np.abs(extra)))
    bound = 100.0 * max(len(T), 1) * m**3 * (m + e) ** 2
    return 2.0 ** int(np.floor(np.log2(1e300 / bound)))


def check_mass_state(mesh, model, sigp, tag, density, override, frames, Ug, defer):
    """Compare every mass quantity of `mesh` in its current state with the exact integrals in `model`.
    override: the centre the mesh was told to use (float64 (3,)) or None.
    frames: list of (label, object handed to moment_inertia_frame, float64 4x4 holding the same values).
    defer: list collecting a violation that must not stop the remaining comparisons."""
    from fractions import Fraction

    def _cmp(got, want, tol, sig, what):
        _cmp0(got, want, np.asarray(tol, dtype=np.float64) + U, sig, what)

    ex = model.ex
    Vx, tV = model.V, model.tV
    d = float(density)
    dF = Fraction(d)
    sig = sigp
    # Ug: underflow floor of the geometric part (density 1); it is scaled by the density like everything else, and a
    # result that is itself subnormal carries the absolute rounding of the last multiplication
    U = Ug * abs(d) + FLOOR
    _cmp(mesh.volume, Vx, tV, sig + "volume|" + tag, "Trimesh.volume")
    check(float(mesh.density) == d, sig + "density|" + tag, f"density {mesh.density!r} != {d!r}")
    tm = abs(d) * tV + 2 * EPS * abs(d * Vx)
    _cmp(mesh.mass, d * Vx, tm, sig + "mass|" + tag, f"Trimesh.mass (density {d})")
    got_c = np.array(mesh.center_mass, dtype=np.float64)
    check(got_c.shape == (3,), sig + "center_mass|shape|" + tag, str(got_c.shape))
    centre = None  # (floats, tolerance, exact Fractions) of the centre the library reports
    if override is not None:
        check(np.array_equal(got_c, override), sig + "center_mass|override_not_honoured", f"got {got_c.tolist()} set {np.asarray(override).tolist()}")
        centre = (override, np.zeros(3), [Fraction(float(x)) for x in override])
    elif model.wellcond:
        if abs(float(mesh.volume)) < tm_tol.zero and not got_c.any():
            # absolute zero-volume shortcut of the library taken although the solid is well conditioned
            if (np.abs(model.cm) > model.tcm).any():
                if not defer:
                    defer.append(
                        Violation(
                            sig + "center_mass|abs_volume_threshold",
                            f"volume {float(mesh.volume)!r} (exact {Vx!r}, tolerance {tV:.3e}) is below tol.zero={tm_tol.zero}: "
                            f"center_mass reported as origin, exact {model.cm.tolist()}",
                        )
                    )
                centre = (np.zeros(3), np.zeros(3), [Fraction(0)] * 3)
        if centre is None:
            _cmp(got_c, model.cm, model.tcm, sig + "center_mass|" + tag, "Trimesh.center_mass")
            centre = (model.cm, model.tcm, ex.center_mass())
    if centre is None:
        return  # ill-conditioned centre: nothing more can be said without dividing by ~0
    cf, dc, cF = centre
    I_c = ex.inertia_centre_convention(cF)
    I_cd = [[dF * x for x in row] for row in I_c]
    want = _mat(I_cd)
    tolI = model.inertia_at_centre(cf, dc, d, want)
    got = np.array(mesh.moment_inertia, dtype=np.float64)
    _cmp(got, want, tolI, sig + "moment_inertia|" + tag, f"Trimesh.moment_inertia (density {d})")
    mp = mesh.mass_properties
    check(
        np.array_equal(mp["inertia"], got) and mp["volume"] == mesh.volume and mp["mass"] == mesh.mass
        and np.array_equal(mp["center_mass"], got_c) and float(mp["density"]) == d and np.array_equal(mp.inertia, got),
        sig + "mass_properties|fields|" + tag,
        "mass_properties fields differ from the Trimesh attributes",
    )
    massF = dF * ex.V
    for flabel, fobj, fref in frames:
        wantF, tolF = frame_oracle(model, I_cd, tolI, cF, dc, massF, tm, fref)
        gotF = mesh.moment_inertia_frame(fobj)
        _cmp(gotF, wantF, tolF, sig + f"moment_inertia_frame|{tag}|{flabel}", f"moment_inertia_frame({flabel}) density {d}")


def check_surface(mesh, model, sigp, tag, U):
    """triangles_cross / area_faces / area of the mesh object against the exact values of its current geometry"""
    T = model.T
    nx = np.array([[_f(x) for x in n] for _, n in ox.cross_sq_exact(T)]).reshape((-1, 3))
    area_x, per_x = ox.area_exact(T)
    _cmp0(mesh.triangles_cross, nx, (0.0 if model.exact else 4 * EPS) * model.nmaj + U, sigp + "Trimesh.triangles_cross|" + tag, "Trimesh.triangles_cross")
    _cmp0(mesh.area_faces, np.array(per_x), 8 * EPS * model.areamaj + U, sigp + "Trimesh.area_faces|" + tag, "Trimesh.area_faces")
    _cmp0(mesh.area, area_x, 64 * EPS * model.Aarea + U, sigp + "Trimesh.area|" + tag, "Trimesh.area")


# ======================================================================================= (a) integer grid


def _grid_case_arrays(case):
    kind = case.get("kind", "tet")
    nverts, faces = (4, ox.TET_FACES) if kind == "tet" else (3, ox.PILLOW_FACES)
    if "verts" in case:
        verts = np.array(case["verts"], dtype=np.int64).reshape((-1, nverts, 3))
    else:
        k = int(case["k"])
        total = k ** (3 * nverts)
        idx = int(case["start"]) + int(case["step"]) * np.arange(int(case["count"]), dtype=np.int64)
        idx = idx[idx < total]
        verts = ox.grid_vertices(k, idx, nverts)
    return kind, verts, verts[:, faces, :]  # (m, f, 3, 3)


@body("C03.grid")
def b_grid(case, ctx):
    """A block of small integer tetrahedra (or pillows), each handed alone to triangles.mass_properties.
    All the library's intermediates are small integers, so apart from the final divisions everything is exact."""
    kind, verts, tri = _grid_case_arrays(case)
    m = len(tri)
    if m == 0:
        return
    N0, N1, N2 = ox.batch_integer_numerators(tri)
    trif = tri.astype(np.float64)
    Vg = np.zeros(m)
    Cg = np.zeros((m, 3))
    Ig = np.zeros((m, 3, 3))
    Og = np.zeros((m, 3, 3))
    zero = np.zeros(3)
    mp = tm_triangles.mass_properties
    for q in range(m):
        r = mp(trif[q])
        Vg[q] = r.volume
        Cg[q] = r.center_mass
        Ig[q] = r.inertia
        Og[q] = mp(trif[q], center_mass=zero).inertia

    def fail(mask, sig, what, got, want):
        q = int(np.argwhere(mask.reshape(m, -1).any(axis=1))[0][0])
        raise Violation(
            f"C03.grid|{sig}|{kind}",
            f"{what}: vertices {verts[q].tolist()} got {np.asarray(got[q]).tolist()} exact {np.asarray(want[q]).tolist()} "
            f"(replay single: {{\"kind\": \"{kind}\", \"verts\": [{verts[q].tolist()}]}})",
        )

    n0 = N0.astype(np.float64)
    n1 = N1.astype(np.float64)
    n2 = N2.astype(np.float64)
    # volume: one correctly rounded division of an exact integer
    Vx = n0 / 6.0
    bad = ~(np.abs(Vg - Vx) <= EPS * np.abs(Vx))
    if bad.any():
        fail(bad, "volume", "volume", Vg, Vx)
    # second moments about the origin (center_mass=[0,0,0] -> nothing subtracted): inertia = tr(m2) 1 - m2
    m2 = n2 / 120.0
    Ox = -m2.copy()
    for i in range(3):
        j, k2 = (i + 1) % 3, (i + 2) % 3
        Ox[:, i, i] = (N2[:, j, j] + N2[:, k2, k2]).astype(np.float64) / 120.0
    tolO = EPS * np.abs(m2)
    for i in range(3):
        j, k2 = (i + 1) % 3, (i + 2) % 3
        tolO[:, i, i] = 2 * EPS * (np.abs(m2[:, j, j]) + np.abs(m2[:, k2, k2]))
    bad = ~(np.abs(Og - Ox) <= tolO)
    if bad.any():
        q = int(np.argwhere(bad.reshape(m, -1).any(axis=1))[0][0])
        ij = np.argwhere(bad[q])[0]
        fail(bad, "inertia_origin|" + ("diag" if ij[0] == ij[1] else "offdiag"), "inertia with center_mass=[0,0,0]", Og, Ox)
    # flat tetrahedra / pillows: exact volume 0 -> centre of mass reported at the origin, all moments exactly zero
    flat = N0 == 0
    nz = ~flat
    if flat.any():
        bad = flat & ((Cg != 0).any(axis=1) | (Ig != 0).any(axis=(1, 2)))
        if bad.any():
            fail(bad, "flat", "zero-volume surface: centre/inertia not zero", Ig, np.zeros_like(Ig))
    if nz.any():
        # centre of mass = N1 / (4 N0), two roundings in the library (integral/24, /volume)
        Cx = n1[nz] / (4.0 * n0[nz])[:, None]
        bad = np.zeros(m, dtype=bool)
        bad[nz] = ~(np.abs(Cg[nz] - Cx) <= 4 * EPS * np.abs(Cx)).all(axis=1)
        if bad.any():
            Cfull = np.zeros((m, 3))
            Cfull[nz] = Cx
            fail(bad, "center_mass", "center_mass", Cg, Cfull)
        # inertia about the centre of mass: J_ij = N2_ij/120 - N1_i N1_j/(96 N0) = (4 N0 N2_ij - 5 N1_i N1_j)/(480 N0)
        num = 4 * N0[nz, None, None] * N2[nz] - 5 * N1[nz, :, None] * N1[nz, None, :]
        J = num.astype(np.float64) / (480.0 * n0[nz])[:, None, None]
        Ix = -J
        for i in range(3):
            j, k2 = (i + 1) % 3, (i + 2) % 3
            Ix[:, i, i] = (num[:, j, j] + num[:, k2, k2]).astype(np.float64) / (480.0 * n0[nz])
        # tolerance: 8 eps * (sum of the absolute terms the library combines)
        am2 = np.abs(m2[nz])
        cc = np.abs(n1[nz, :, None] * n1[nz, None, :]) / (96.0 * np.abs(n0[nz]))[:, None, None]
        tolI = 8 * EPS * (am2 + cc)
        for i in range(3):
            j, k2 = (i + 1) % 3, (i + 2) % 3
            tolI[:, i, i] = 8 * EPS * (am2[:, j, j] + am2[:, k2, k2] + cc[:, j, j] + cc[:, k2, k2])
        badn = ~(np.abs(Ig[nz] - Ix) <= tolI)
        if badn.any():
            bad = np.zeros((m, 3, 3), dtype=bool)
            bad[nz] = badn
            Ifull = np.zeros((m, 3, 3))
            Ifull[nz] = Ix
            q = int(np.argwhere(bad.reshape(m, -1).any(axis=1))[0][0])
            ij = np.argwhere(bad[q])[0]
            fail(bad, "inertia_cm|" + ("diag" if ij[0] == ij[1] else "offdiag"), "inertia about centre of mass", Ig, Ifull)
        nontriv = int(((N1[nz] != 0).all(axis=1) & (num[:, 0, 1] != 0) & (num[:, 1, 2] != 0) & (num[:, 0, 2] != 0)).sum())
    else:
        nontriv = 0
    # bookkeeping: a block stands for m evaluations
    label = f"grid:{kind}:k{case['k']}" if "k" in case else f"grid:{kind}:explicit"
    ctx.evaluations += m - 1
    ctx.per_body["C03.grid"] += m - 1
    ctx.classes[label] += m
    ctx.classes[label + ":flat"] += int(flat.sum())
    ctx.classes[label + ":negative_volume"] += int((N0 < 0).sum())
    ctx.classes[label + ":nontrivial"] += nontriv
    if nontriv:
        ctx.note(nontrivial=True, cls=label + ":blocks")
        if ctx._in_enum:
            ctx.nontrivial_enum += nontriv - 1
    else:
        ctx.note(cls=label + ":blocks")


def _blocks(kind, k, step, offset, block=2048):
    nverts = 4 if kind == "tet" else 3
    total = k ** (3 * nverts)
    n = (total - offset + step - 1) // step  # number of sampled indices
    for b in range(0, n, block):
        yield {"kind": kind, "k": k, "start": offset + b * step, "step": step, "count": min(block, n - b)}


# ======================================================================================= (b) generated meshes

KINDS = ["tetra", "box", "octa", "icos", "prism", "torus", "uvsphere", "pillow"]


def build_case(case):
    V, F = gmesh.build(case["spec"])
    pl = case["placement"]
    rs = np.random.RandomState(int(case["seed"]) & 0x7FFFFFFF)
    if pl["mode"] == "random":
        V = rs.uniform(-1.0, 1.0, V.shape)
    elif pl["mode"] == "randint":
        V = rs.randint(-int(pl["m"]), int(pl["m"]) + 1, V.shape).astype(np.float64)
    V = V * float(case["scale"]) + np.asarray(case["shift"], dtype=np.float64)
    perm = rs.permutation(len(F))
    F = F[perm]
    rot = rs.randint(0, 3, len(F))
    F = np.array([np.roll(f, -int(k)) for f, k in zip(F, rot)], dtype=np.int64).reshape((-1, 3))
    return np.ascontiguousarray(V, dtype=np.float64), np.ascontiguousarray(F)


def _classes(case, V, F, model):
    spec = case["spec"]
    kinds = [p["kind"] for p in spec["parts"]]
    cl = ["placement:" + case["placement"]["mode"], "coords:" + ("int_exact" if model.exact else "float")]
    if case["placement"]["mode"] == "template":
        cl.append("genus:1" if "torus" in kinds else "genus:0")
        if "pillow" in kinds:
            cl.append("kind:pillow")
        if len(kinds) > 1:
            cl.append("bodies:multi")
            cl.append("overlap:yes" if case["overlap"] else "overlap:no")
        if spec.get("lattice"):
            cl.append("lattice")
    if not model.exact:
        s = float(case["scale"])
        cl.append("scale:1e%+d" % int(np.floor(np.log10(s) + 0.5)))
    ext = float(np.ptp(V, axis=0).max()) if len(V) else 0.0
    far = float(np.abs(V).max()) / ext if ext > 0 else 0.0
    cl.append("far:>=100_diameters" if far >= 100 else "far:>=10_diameters" if far >= 10 else "far:near_origin")
    cl.append("cond:well" if model.wellcond else "cond:volume_below_1000tol")
    cl.append("frame:" + case["frame"]["cls"])
    for key in ("density", "density2"):
        x = case[key]
        if x == "huge":
            cl.append(key + ":huge")
        elif float(x) == 0.0:
            cl.append(key + (":negative_zero" if np.signbit(float(x)) else ":zero"))
        elif float(x) < 0:
            cl.append(key + ":negative")
        elif float(x) < 1e-200:
            cl.append(key + ":tiny")
    if case.get("density_as_int") and case["density"] != "huge" and float(case["density"]) == int(float(case["density"])):
        cl.append("density:int_typed")
    cl.append("faces:%s" % ("<=20" if len(F) <= 20 else "<=100" if len(F) <= 100 else ">100"))
    return cl


@body("C03.mesh")
def b_mesh(case, ctx):
    from fractions import Fraction

    V, F = build_case(case)
    T = V[F]
    model = Model(T)
    ex = model.ex
    exact = model.exact
    nontriv = False
    if model.wellcond:
        Icm_x = ex.inertia_cm()
        nontriv = all(x != 0 for x in ex.m1) and Icm_x[0][1] != 0 and Icm_x[1][2] != 0 and Icm_x[0][2] != 0
    ctx.note(nontrivial=nontriv, cls=_classes(case, V, F, model))
    frame = np.array(case["frame"]["M"], dtype=np.float64)
    shift = np.asarray(case["shift"], dtype=np.float64)
    frame[:3, 3] = frame[:3, 3] * float(case["scale"]) + (shift if case["frame_at_mesh"] else 0.0)
    if case["cm_mode"] == "origin":
        c = np.zeros(3)
    elif case["cm_mode"] == "shift":
        c = shift.copy()
    else:
        c = shift + np.asarray(case["cm"], dtype=np.float64) * float(case["scale"])
    reach = max(float(np.abs(c).max()), float(np.abs(frame[:3, 3]).max()))
    d = resolve_density(case["density"], T, reach)
    d2 = resolve_density(case["density2"], T, reach)
    Ug = underflow_floor(T, (c, 2), (frame[:3, 3], 2))
    U = Ug + FLOOR
    U2 = Ug * abs(d2) + FLOOR

    def _cmp(got, want, tol, sig, what):  # noqa: F811  (shadows the module level comparator, adds the underflow floor)
        _cmp0(got, want, np.asarray(tol, dtype=np.float64) + U, sig, what)

    # ---- cross products and triangle areas
    crosses_x = ox.cross_sq_exact(T)
    nx = np.array([[_f(x) for x in n] for _, n in crosses_x]).reshape((-1, 3))
    tc = tm_triangles.cross(T)
    _cmp(tc, nx, (0.0 if exact else 4 * EPS) * model.nmaj, "C03.mesh|cross", "triangles.cross")
    area_x, per_x = ox.area_exact(T)
    per_x = np.array(per_x)
    tol_face = 8 * EPS * model.areamaj
    _cmp(tm_triangles.area(T), per_x, tol_face, "C03.mesh|area|triangles", "triangles.area(triangles)")
    _cmp(tm_triangles.area(crosses=tc), per_x, tol_face, "C03.mesh|area|crosses", "triangles.area(crosses=)")

    mesh = trimesh.Trimesh(vertices=V, faces=F, process=False)
    tol_area = 64 * EPS * model.Aarea
    _cmp(mesh.area, area_x, tol_area, "C03.mesh|Trimesh.area", "Trimesh.area")
    _cmp(mesh.area_faces, per_x, tol_face, "C03.mesh|Trimesh.area_faces", "Trimesh.area_faces")

    # ---- default density / centre
    Vx, tV = model.V, model.tV

    defer = []
    frames = [("identity", np.eye(4), np.eye(4)), ("rigid", frame, frame)]

    def check_state(tag, density, override):
        check_mass_state(mesh, model, "C03.mesh|", tag, density, override, frames, Ug, defer)

    check_state("default", 1.0, None)
    mesh.density = int(d) if case.get("density_as_int") and d == int(d) and abs(d) < 2**53 else d
    check_state("density", d, None)
    mesh.center_mass = c
    check_state("override", d, c)
    _cmp(mesh.area, area_x, tol_area, "C03.mesh|Trimesh.area|override", "Trimesh.area after overrides")

    # ---- triangles.mass_properties options on the raw triangles
    r = tm_triangles.mass_properties(T, skip_inertia=True)
    check(r.inertia is None, "C03.mesh|triangles.mass_properties|skip_inertia|inertia_present", "inertia returned with skip_inertia=True")
    _cmp(r.volume, Vx, tV, "C03.mesh|triangles.mass_properties|skip_inertia|volume", "volume (skip_inertia)")
    _cmp(r.mass, Vx, tV, "C03.mesh|triangles.mass_properties|skip_inertia|mass", "mass (skip_inertia)")
    if model.wellcond and not (abs(float(r.volume)) < tm_tol.zero):
        _cmp(r.center_mass, model.cm, model.tcm, "C03.mesh|triangles.mass_properties|skip_inertia|center_mass", "center_mass (skip_inertia)")
    # caller-supplied cross products ((b-a) x (c-a), evaluated here), density and centre given as arguments
    my_cross = np.cross(T[:, 1] - T[:, 0], T[:, 2] - T[:, 0])
    r = tm_triangles.mass_properties(T, crosses=my_cross, density=d2, center_mass=c)
    d2F = Fraction(d2)
    _cmp(r.volume, Vx, tV, "C03.mesh|triangles.mass_properties|crosses|volume", "volume (crosses=)")
    check(float(r.density) == d2, "C03.mesh|triangles.mass_properties|crosses|density", f"density {r.density!r} returned for density={d2!r}")
    _cmp0(r.mass, d2 * Vx, abs(d2) * tV + 2 * EPS * abs(d2 * Vx) + U2, "C03.mesh|triangles.mass_properties|crosses|mass", f"mass (crosses=, density={d2!r})")
    check(np.array_equal(r.center_mass, c), "C03.mesh|triangles.mass_properties|crosses|center_mass", "center_mass argument not returned")
    cF = [Fraction(float(x)) for x in c]
    want = _mat([[d2F * x for x in row] for row in ex.inertia_centre_convention(cF)])
    _cmp0(r.inertia, want, model.inertia_at_centre(c, np.zeros(3), d2, want) + U2, "C03.mesh|triangles.mass_properties|crosses|inertia", f"inertia (crosses=, density={d2!r}, center_mass=)")

    # ---- transform_inertia without parallel axis: tensor of the body moved by R is R I R^T
    if model.wellcond:
        X = np.array(tm_triangles.mass_properties(T).inertia, dtype=np.float64)
        R = frame[:3, :3]
        XF = [[Fraction(float(x)) for x in row] for row in X]
        want = _mat(ox.rotate_body(XF, R.tolist()))
        tolR = 16 * EPS * (np.abs(R) @ np.abs(X) @ np.abs(R).T)
        for name, Tm in (("4x4", frame), ("3x3", R)):
            _cmp(tm_inertia.transform_inertia(Tm, X), want, tolR, "C03.mesh|transform_inertia|rotate|" + name, f"transform_inertia({name}) vs R I R^T")

    if defer:
        raise defer[0]


@st.composite
def mesh_case(draw, scales=None, modes=None, max_parts=3, max_faces=200):
    overlap = draw(st.booleans())
    spec = draw(gmesh.mesh_spec(kinds=KINDS, max_parts=max_parts, lattice=True, disjoint=not overlap, max_faces=max_faces))
    mode = draw(st.sampled_from(modes or ["template", "template", "template", "random", "randint"]))
    case = {"spec": spec, "overlap": overlap, "seed": draw(st.integers(0, 2**31 - 1))}
    integer = False
    if mode == "randint":
        case["placement"] = {"mode": mode, "m": draw(st.sampled_from([1, 2, 3, 10, 100]))}
        integer = True
    else:
        case["placement"] = {"mode": mode}
        if mode == "template":
            if spec.get("lattice"):
                integer = True
            elif draw(st.booleans()):
                spec["place"] = draw(gmat.matrix(classes=["rotation", "rigid"], tscale=1.0))["M"]
    k = draw(st.sampled_from([0, 0, 0, 1, 30, 1000]))
    direction = [draw(st.floats(-1, 1, allow_nan=False)) for _ in range(3)]
    if integer:
        case["scale"] = 1.0
        case["shift"] = [float(round(k * x)) for x in direction]
    else:
        s = draw(st.one_of(st.sampled_from(scales or [1e-3, 1.0, 1e3, 1e6]), st.floats(-3.0, 6.0).map(lambda u: 10.0**u) if scales is None else st.sampled_from(scales)))
        case["scale"] = s
        case["shift"] = [k * s * x for x in direction]
    # all densities: ordinary ones, the boundary values 0 / -0.0, negative, tiny, and as large as keeps the results finite
    special = st.sampled_from([0.0, -0.0, 0.0, 1e-300, "huge", -1.0, -2.5, 3.0, 7.0])
    ordinary = st.one_of(st.sampled_from([2.0, 0.5, 1000.0, 0.001, 1.0]), st.floats(1e-3, 1e3, allow_nan=False))
    case["density"] = draw(st.one_of(ordinary, ordinary, special))
    case["density2"] = draw(st.one_of(ordinary, special))
    case["density_as_int"] = draw(st.booleans())
    case["cm_mode"] = draw(st.sampled_from(["rel", "rel", "rel", "origin", "shift"]))
    case["cm"] = [draw(st.floats(-3, 3, allow_nan=False)) for _ in range(3)]
    case["frame"] = draw(gmat.matrix(classes=["rigid", "rigid", "rotation", "translation", "identity"]))
    case["frame_at_mesh"] = draw(st.booleans())
    return case


@subcheck("C03", "mesh", shards={"quick": 12, "thorough": 16})
def s_mesh(ctx):
    ctx.given("C03.mesh", mesh_case(), n={"quick": 3600, "thorough": 120000})


@subcheck("C03", "small_scale", shards={"quick": 2, "thorough": 4})
def s_small(ctx):
    # solids whose volume is small in absolute terms (10 micron features in metre units)
    ctx.given("C03.mesh", mesh_case(scales=[1e-6, 1e-5, 1e-4], modes=["template", "template", "random"]), n={"quick": 400, "thorough": 8000})


# ======================================================================================= (c) warm objects across transforms

WARM_ATTRS = [
    "volume", "area", "mass", "center_mass", "moment_inertia", "mass_properties", "triangles_cross", "area_faces",
    "face_normals", "triangles", "triangles_center", "centroid", "bounds", "principal_inertia_components",
]  # fmt: skip


def signed_permutation(perm, signs):
    """proper rotation with entries in {-1,0,1}: permutation matrix times signs, last sign fixed so that det = +1"""
    R = np.zeros((3, 3))
    for i, j in enumerate(perm):
        R[i, j] = float(signs[i])
    if np.linalg.det(R) < 0:
        R[2] *= -1.0
    return R


def _step_matrix(step, scale):
    """the 4x4 a step stands for, and how it is handed to the mesh"""
    op = step["op"]
    M = np.eye(4)
    if op == "transform":
        M = np.array(step["mat"]["M"], dtype=np.float64)
        M[:3, 3] *= scale
    elif op == "lattice":
        M[:3, :3] = float(step["s"]) * signed_permutation(step["perm"], step["signs"])
        M[:3, 3] = np.asarray(step["t"], dtype=np.float64)
    elif op == "scale":
        M[:3, :3] = np.diag(np.ones(3) * np.asarray(step["s"], dtype=np.float64))
    elif op == "translate":
        M[:3, 3] = np.asarray(step["t"], dtype=np.float64) * scale
    return M


def _is_uniform_scale(M):
    L = M[:3, :3]
    G = L.T @ L
    s2 = np.trace(G) / 3.0
    return bool(np.allclose(G, s2 * np.eye(3), rtol=0, atol=1e-9 * s2) and abs(s2 - 1.0) > 1e-3)


@body("C03.warm")
def b_warm(case, ctx):
    """One mesh object that lives through a sequence of transforms: values are read before each transform (so
    whatever the library keeps across it is warm) and after each transform every mass quantity must equal the exact
    integrals of the geometry the object holds *now* (its current vertices and faces, read as plain arrays)."""
    V, F = build_case(case)
    scale = float(case["scale"])
    shift = np.asarray(case["shift"], dtype=np.float64)
    mesh = trimesh.Trimesh(vertices=V, faces=F, process=False)
    d = 1.0
    if case["pre_density"]:
        d = 1e100 if case["density"] == "huge" else float(case["density"])
        mesh.density = int(d) if case.get("density_as_int") and d == int(d) and abs(d) < 2**53 else d
    if case["pre_override"]:
        mesh.center_mass = shift + np.asarray(case["cm"], dtype=np.float64) * scale
    frame0 = np.array(case["frame"]["M"], dtype=np.float64)
    for name in case["warm"]:
        getattr(mesh, name)
    classes = ["warm:pre_reads:%d" % min(len(case["warm"]), 3)]
    nontriv = False
    defer = []
    for k, step in enumerate(case["steps"]):
        M = _step_matrix(step, scale)
        op = step["op"]
        if op in ("transform", "lattice"):
            obj = as_rep(M, step.get("rep", "f64"))
            if obj is None:
                obj = M
            else:
                classes.append("warm:matrix_rep:" + step.get("rep", "f64"))
            mesh.apply_transform(obj)
            classes.append("warm:op:" + (step["mat"]["cls"] if op == "transform" else "lattice"))
        elif op == "scale":
            mesh.apply_scale(step["s"])
            classes.append("warm:op:apply_scale" + ("_vector" if isinstance(step["s"], list) else ""))
        else:
            mesh.apply_translation((np.asarray(step["t"], dtype=np.float64) * scale).tolist())
            classes.append("warm:op:apply_translation")
        warm_before = bool(case["warm"]) or k > 0
        if _is_uniform_scale(M) and warm_before:
            classes.append("warm:uniform_scale_on_warm_object")
        if np.linalg.det(M[:3, :3]) < 0 and warm_before:
            classes.append("warm:mirror_on_warm_object")
        # the geometry the object holds now
        Vc = np.array(mesh.vertices.view(np.ndarray), dtype=np.float64)
        Fc = np.array(mesh.faces.view(np.ndarray), dtype=np.int64)
        if not np.isfinite(Vc).all():
            break
        model = Model(Vc[Fc])
        scale_now = max(float(np.abs(Vc).max()), 1e-300)
        frame = frame0.copy()
        frame[:3, 3] *= scale_now
        override = None
        if case["pre_override"]:
            override = np.array(mesh.center_mass, dtype=np.float64)  # carried along by the library; taken as given
            check(np.isfinite(override).all(), "C03.warm|center_mass|override_not_finite", str(override))
        U = underflow_floor(model.T, (override if override is not None else 0.0, 2), (frame[:3, 3], 2))
        tag = "step%d" % min(k, 1) + ("|override" if override is not None else "")
        check_surface(mesh, model, "C03.warm|", tag, U + FLOOR)
        frames = [("identity", np.eye(4), np.eye(4)), ("rigid", frame, frame)]
        check_mass_state(mesh, model, "C03.warm|", tag, d, override, frames, U, defer)
        if model.wellcond:
            Icm = model.ex.inertia_cm()
            nontriv = nontriv or (all(x != 0 for x in model.ex.m1) and Icm[0][1] != 0 and Icm[1][2] != 0 and Icm[0][2] != 0)
        for name in step.get("reads", []):
            getattr(mesh, name)
    ctx.note(nontrivial=nontriv, cls=sorted(set(classes)))
    if defer:
        raise defer[0]


REPS = ["f64", "list", "f32", "f16", "int64", "int32", "intlist", "readonly", "fortran", "strided"]


@st.composite
def warm_case(draw):
    case = draw(mesh_case(max_parts=2, max_faces=100))
    case["warm"] = draw(st.lists(st.sampled_from(WARM_ATTRS), min_size=draw(st.sampled_from([0, 1, 1, 2])), max_size=4, unique=True))
    case["pre_density"] = draw(st.booleans())
    case["pre_override"] = draw(st.sampled_from([False, False, True]))
    steps = []
    for _ in range(draw(st.integers(1, 3))):
        op = draw(st.sampled_from(["transform", "transform", "transform", "lattice", "scale", "translate"]))
        step = {"op": op}
        if op == "transform":
            step["mat"] = draw(gmat.matrix(classes=[c for c in gmat.ALL_CLASSES if c != "identity"]))
            step["rep"] = draw(st.sampled_from(REPS))
        elif op == "lattice":
            step["perm"] = list(draw(st.permutations([0, 1, 2])))
            step["signs"] = [draw(st.sampled_from([1, -1])) for _ in range(3)]
            step["s"] = draw(st.sampled_from([1, 2, 3, -1, -2]))
            step["t"] = [draw(st.integers(-5, 5)) for _ in range(3)]
            step["rep"] = draw(st.sampled_from(REPS))
        elif op == "scale":
            uniform = st.one_of(st.sampled_from([2.0, 0.5, 3.0, 10.0, 0.1, 2, 3]), st.floats(0.05, 20.0, allow_nan=False))
            step["s"] = draw(st.one_of(uniform, uniform, st.lists(st.floats(0.2, 5.0, allow_nan=False), min_size=3, max_size=3)))
        else:
            step["t"] = [draw(st.floats(-3, 3, allow_nan=False)) for _ in range(3)]
        step["reads"] = draw(st.lists(st.sampled_from(WARM_ATTRS), min_size=0, max_size=2, unique=True))
        steps.append(step)
    case["steps"] = steps
    return case


@subcheck("C03", "warm", shards={"quick": 6, "thorough": 12})
def s_warm(ctx):
    ctx.given("C03.warm", warm_case(), n={"quick": 1200, "thorough": 40000})


# ======================================================================================= (d) representations of the arguments


def as_rep(a, kind):
    """An object holding exactly the values of the float64 array `a`, written down as `kind`;
    None when that representation cannot hold the values exactly (the values do not allow it)."""
    a = np.asarray(a, dtype=np.float64)
    if kind == "f64":
        return np.array(a)
    if kind == "list":
        return a.tolist()
    if kind in ("f32", "f16"):
        with np.errstate(over="ignore", under="ignore"):
            b = a.astype(np.float32 if kind == "f32" else np.float16)
        return b if np.array_equal(b.astype(np.float64), a) else None
    if kind in ("int64", "int32", "intlist"):
        lim = 2.0**31 - 1 if kind == "int32" else 2.0**53
        if not (np.isfinite(a).all() and (a == np.round(a)).all() and (np.abs(a) < lim).all()):
            return None
        b = a.astype(np.int32 if kind == "int32" else np.int64)
        return b.tolist() if kind == "intlist" else b
    if kind == "readonly":
        b = np.array(a)
        b.setflags(write=False)
        return b
    if kind == "fortran":
        return np.asfortranarray(np.array(a))
    if kind == "strided":
        if a.ndim == 0:
            return np.array(a)
        big = np.zeros(a.shape[:-1] + (2 * a.shape[-1],))
        big[..., ::2] = a
        return big[..., ::2]
    raise ValueError(kind)


def as_scalar_rep(x, kind):
    x = float(x)
    if kind == "float":
        return x
    if kind == "int":
        return int(x) if x == int(x) else None
    if kind == "np32":
        return np.float32(x) if float(np.float32(x)) == x else None
    if kind == "np64":
        return np.float64(x)
    if kind == "0d":
        return np.array(x)
    raise ValueError(kind)


SCALAR_REPS = ["float", "int", "np32", "np64", "0d"]
FACE_REPS = ["int64", "int32", "list", "readonly", "fortran", "strided"]


def as_face_rep(F, kind):
    F = np.asarray(F, dtype=np.int64)
    if kind == "int64":
        return np.array(F)
    if kind == "int32":
        return F.astype(np.int32)
    if kind == "list":
        return F.tolist()
    if kind == "readonly":
        b = np.array(F)
        b.setflags(write=False)
        return b
    if kind == "fortran":
        return np.asfortranarray(F)
    big = np.zeros((len(F), 6), dtype=np.int64)
    big[:, ::2] = F
    return big[:, ::2]


def quantize(a, q):
    """round the values to what float32 / float16 can hold (result is float64 again): afterwards the low precision
    representations hold exactly the same numbers as the float64 one"""
    a = np.asarray(a, dtype=np.float64)
    if q == "f16" and (np.abs(a) >= 6.0e4).any():
        q = "f32"
    if q == "f32":
        with np.errstate(over="ignore", under="ignore"):
            b = a.astype(np.float32).astype(np.float64)
        return b if np.isfinite(b).all() else a
    if q == "f16":
        with np.errstate(over="ignore", under="ignore"):
            return a.astype(np.float16).astype(np.float64)
    return a


class _Args:
    """the representation chosen for every argument of the case; falls back to float64 when the values do not allow it"""

    def __init__(self, kinds, classes=None):
        self.kinds = dict(kinds)
        self.used = {}
        self.classes = classes

    def _note(self, name, k):
        self.used[name] = k
        if self.classes is not None:
            self.classes.append("args:%s=%s" % (name, k))

    def arr(self, name, a):
        k = self.kinds.get(name, "f64")
        obj = as_rep(a, k)
        if obj is None:
            k, obj = "f64", np.array(np.asarray(a, dtype=np.float64))
        self._note(name, k)
        return obj

    def scalar(self, name, x):
        k = self.kinds.get(name, "float")
        obj = as_scalar_rep(x, k)
        if obj is None:
            k, obj = "float", float(x)
        self._note(name, k)
        return obj

    def faces(self, name, F):
        k = self.kinds.get(name, "int64")
        self._note(name, k)
        return as_face_rep(F, k)


def _run_args(case, kinds, ctx_classes=None):
    """all calls of the case with the given representation per argument; raises Violation"""
    from fractions import Fraction

    q = case["quant"]
    V, F = build_case(case)
    V = quantize(V, q)
    T = V[F]
    model = Model(T)
    ex = model.ex
    scale = float(case["scale"])
    shift = np.asarray(case["shift"], dtype=np.float64)
    if case["frame_lattice"] is not None:
        fl = case["frame_lattice"]
        frame = np.eye(4)
        frame[:3, :3] = signed_permutation(fl["perm"], fl["signs"])
        frame[:3, 3] = np.asarray(fl["t"], dtype=np.float64)
    else:
        frame = np.array(case["frame"]["M"], dtype=np.float64)
        frame[:3, 3] = frame[:3, 3] * scale + (shift if case["frame_at_mesh"] else 0.0)
        frame = quantize(frame, q)
    if case["cm_mode"] == "origin":
        c = np.zeros(3)
    elif case["cm_mode"] == "shift":
        c = shift.copy()
    elif case["cm_mode"] == "lattice":
        c = np.round(shift + np.asarray(case["cm"], dtype=np.float64))
    else:
        c = shift + np.asarray(case["cm"], dtype=np.float64) * scale
    c = quantize(c, q)
    reach = max(float(np.abs(c).max()), float(np.abs(frame[:3, 3]).max()))
    d = float(quantize(resolve_density(case["density"], T, reach), q if q != "f16" else "f32"))
    if not np.isfinite(d) or (d == 0.0 and float(resolve_density(case["density"], T, reach)) != 0.0):
        d = resolve_density(case["density"], T, reach)  # float32 cannot hold it: keep the float64 number
    A = _Args(kinds, ctx_classes)
    Ug = underflow_floor(T, (c, 2), (frame[:3, 3], 2))
    U = Ug * max(abs(d), 1.0) + FLOOR
    Vx, tV = model.V, model.tV
    P = "C03.args|"

    def cmp(got, want, tol, sig, what):
        _cmp0(got, want, np.asarray(tol, dtype=np.float64) + U, sig, what)

    def call(sig, fn):
        # the representations used here are all documented as accepted ("(n, 3, 3) float", "(3,) float", "(4, 4) float")
        try:
            return fn()
        except (TypeError, AttributeError, ValueError, IndexError, OverflowError) as e:
            raise Violation(sig + "|raises_" + type(e).__name__, f"{type(e).__name__}: {e}")

    # ---- triangles.* on the raw triangle array
    t_obj = A.arr("triangles", T)
    r = call(P + "triangles.mass_properties|default", lambda: tm_triangles.mass_properties(t_obj))
    cmp(r.volume, Vx, tV, P + "triangles.mass_properties|volume", "volume")
    centre = None
    if model.wellcond:
        cmp(r.center_mass, model.cm, model.tcm, P + "triangles.mass_properties|center_mass", "center_mass")
        want = _mat(ex.inertia_cm())
        cmp(r.inertia, want, model.inertia_at_centre(model.cm, model.tcm, 1.0, want), P + "triangles.mass_properties|inertia", "inertia")
    my_cross = np.cross(T[:, 1] - T[:, 0], T[:, 2] - T[:, 0])
    cr_obj = A.arr("crosses", my_cross)
    c_obj = A.arr("center_mass", c)
    d_obj = A.scalar("density", d)
    # a flag may be written as bool / 0 / 1 / numpy bool: 0 is "compute the inertia", not "flag not given"
    skip = bool(case["skip_inertia"])
    skip_obj = {"bool": skip, "int": int(skip), "np": np.bool_(skip)}[case.get("skip_rep", "bool")]
    if ctx_classes is not None:
        ctx_classes.append("args:skip_inertia=%s:%s" % (case.get("skip_rep", "bool"), skip))
    r = call(
        P + "triangles.mass_properties|options",
        lambda: tm_triangles.mass_properties(t_obj, crosses=cr_obj, density=d_obj, center_mass=c_obj, skip_inertia=skip_obj),
    )
    cmp(r.volume, Vx, tV, P + "triangles.mass_properties|options|volume", "volume (crosses=, density=, center_mass=)")
    check(float(r.density) == d, P + "triangles.mass_properties|options|density", f"density {r.density!r} returned for density={d!r}")
    cmp(r.mass, d * Vx, abs(d) * tV + 2 * EPS * abs(d * Vx), P + "triangles.mass_properties|options|mass", f"mass (density={d!r})")
    check(np.array_equal(np.asarray(r.center_mass, dtype=np.float64), c), P + "triangles.mass_properties|options|center_mass", "center_mass argument not returned")
    if case["skip_inertia"]:
        check(r.inertia is None, P + "triangles.mass_properties|options|skip_inertia", "inertia returned with skip_inertia=True")
    else:
        cF = [Fraction(float(x)) for x in c]
        dF = Fraction(d)
        want = _mat([[dF * x for x in row] for row in ex.inertia_centre_convention(cF)])
        cmp(r.inertia, want, model.inertia_at_centre(c, np.zeros(3), d, want), P + "triangles.mass_properties|options|inertia", "inertia (crosses=, density=, center_mass=)")
    area_x, per_x = ox.area_exact(T)
    per_x = np.array(per_x)
    tol_face = 8 * EPS * model.areamaj
    cmp(call(P + "triangles.area|triangles", lambda: tm_triangles.area(t_obj)), per_x, tol_face, P + "triangles.area|triangles", "triangles.area(triangles)")
    cmp(call(P + "triangles.area|crosses", lambda: tm_triangles.area(crosses=cr_obj)), per_x, tol_face, P + "triangles.area|crosses", "triangles.area(crosses=)")
    if isinstance(t_obj, np.ndarray) and t_obj.dtype.kind == "f" and t_obj.dtype.itemsize == 8 or (isinstance(t_obj, np.ndarray) and t_obj.dtype == np.int64):
        # cross() is a primitive on arrays (no conversion promised): layouts and exact integers only
        nx = np.array([[_f(x) for x in n] for _, n in ox.cross_sq_exact(T)]).reshape((-1, 3))
        cmp(call(P + "triangles.cross", lambda: tm_triangles.cross(t_obj)), nx, (0.0 if model.exact else 4 * EPS) * model.nmaj, P + "triangles.cross", "triangles.cross")

    # ---- the mesh object
    mesh = call(P + "Trimesh", lambda: trimesh.Trimesh(vertices=A.arr("vertices", V), faces=A.faces("faces", F), process=False))
    check_surface(mesh, model, P, "default", Ug + FLOOR)
    f_obj = A.arr("frame", frame)
    i_obj = A.arr("identity", np.eye(4))
    frames = [("identity", i_obj, np.eye(4)), ("rigid", f_obj, frame)]
    defer = []
    call(P + "moment_inertia_frame", lambda: check_mass_state(mesh, model, P, "default", 1.0, None, frames, Ug, defer))
    mesh.density = A.scalar("density_set", d)
    mesh.center_mass = A.arr("center_mass_set", c)
    call(P + "moment_inertia_frame", lambda: check_mass_state(mesh, model, P, "override", d, c, frames, Ug, defer))

    # ---- transform_inertia
    if model.wellcond:
        X = quantize(np.array(tm_triangles.mass_properties(T).inertia, dtype=np.float64), q)
        R = frame[:3, :3]
        XF = [[Fraction(float(x)) for x in row] for row in X]
        want = _mat(ox.rotate_body(XF, R.tolist()))
        tolR = 16 * EPS * (np.abs(R) @ np.abs(X) @ np.abs(R).T)
        x_obj = A.arr("tensor", X)
        r_obj = A.arr("rotation", R)
        cmp(call(P + "transform_inertia", lambda: tm_inertia.transform_inertia(r_obj, x_obj)), want, tolR, P + "transform_inertia|rotate", "transform_inertia vs R I R^T")
        # parallel axis form: R^T (X + m M(a)) R
        mval = 0.0 if case.get("ti_mass_zero") else float(quantize(abs(Vx) + 1.0, "f32"))
        mF = Fraction(mval)
        a = [Fraction(float(x)) for x in frame[:3, 3]]
        Ms = ox.shift_matrix(a)
        aligned = [[XF[i][j] + mF * Ms[i][j] for j in range(3)] for i in range(3)]
        want = _mat(ox.rotate_into_frame(aligned, R.tolist()))
        mag = np.abs(X) + mval * np.abs(_mat(Ms))
        tolP = 32 * EPS * (np.abs(R).T @ mag @ np.abs(R))
        got = call(P + "transform_inertia|parallel_axis", lambda: tm_inertia.transform_inertia(f_obj, x_obj, parallel_axis=True, mass=A.scalar("mass", mval)))
        cmp(got, want, tolP, P + "transform_inertia|parallel_axis", "transform_inertia(parallel_axis=True) vs R^T (I + m M(t)) R")
    if ctx_classes is not None:
        ctx_classes.append("args:quant:" + q)
        ctx_classes.append("args:cond:" + ("well" if model.wellcond else "volume_below_1000tol"))
        if model.wellcond and A.used.get("frame") in ("int64", "int32", "intlist") and (model.cm != np.round(model.cm)).any():
            ctx_classes.append("args:integer_frame_with_fractional_centre")
        nontriv = False
        if model.wellcond:
            Icm = ex.inertia_cm()
            nontriv = all(x != 0 for x in ex.m1) and Icm[0][1] != 0 and Icm[1][2] != 0 and Icm[0][2] != 0
        ctx_classes.append("__nontrivial__" if nontriv else "__trivial__")
    if defer:
        raise defer[0]
    return A


@body("C03.args")
def b_args(case, ctx):
    """Every array / scalar argument of the functions under test is written down in one of several ways that hold
    exactly the same numbers (float64 / float32 / float16 / integer arrays, nested lists, read-only, Fortran-ordered,
    strided).  The result must not depend on the way the numbers were written down: the oracle is the exact integral
    of the values, compared at float64 accuracy."""
    classes = []
    plain = {"f64", "float", "int64"}
    try:
        _run_args(case, case["kinds"], classes)
    except Violation as v:
        nonplain = [(n, k) for n, k in sorted(case["kinds"].items()) if k not in plain]
        ctx.note(cls=[c for c in classes if not c.startswith("__")])
        culprit = None
        if nonplain:
            # which way of writing an argument down is responsible: none (fails with plain float64 arrays too),
            # a single one, or only the combination
            try:
                _run_args(case, {})
            except Violation as v0:
                if v0.sig == v.sig:
                    culprit = "plain"
            if culprit is None:
                for n, k in nonplain:
                    try:
                        _run_args(case, {n: k})
                    except Violation as v1:
                        if v1.sig == v.sig:
                            culprit = f"{n}={k}"
                            break
            if culprit is None:
                culprit = "combination"
        raise Violation(v.sig + "|" + (culprit or "plain"), f"[representations {case['kinds']}, values quantized to {case['quant']}] " + v.msg)
    ctx.note(nontrivial="__nontrivial__" in classes, cls=[c for c in classes if not c.startswith("__")])


ARG_NAMES = ["triangles", "crosses", "center_mass", "vertices", "frame", "identity", "center_mass_set", "tensor", "rotation"]


@st.composite
def args_case(draw):
    case = draw(mesh_case(max_parts=2, max_faces=100))
    case["quant"] = draw(st.sampled_from(["f64", "f32", "f32", "f16"]))
    kinds = {}
    for n in ARG_NAMES:
        if draw(st.integers(0, 2)) > 0:
            kinds[n] = draw(st.sampled_from(REPS))
    for n in ("density", "density_set", "mass"):
        if draw(st.booleans()):
            kinds[n] = draw(st.sampled_from(SCALAR_REPS))
    if draw(st.booleans()):
        kinds["faces"] = draw(st.sampled_from(FACE_REPS))
    case["kinds"] = kinds
    case["skip_inertia"] = draw(st.sampled_from([False, False, True]))
    case["skip_rep"] = draw(st.sampled_from(["bool", "int", "np"]))
    case["ti_mass_zero"] = draw(st.sampled_from([False, False, False, True]))
    case["frame_lattice"] = None
    if draw(st.booleans()):
        case["frame_lattice"] = {
            "perm": list(draw(st.permutations([0, 1, 2]))),
            "signs": [draw(st.sampled_from([1, -1])) for _ in range(3)],
            "t": [draw(st.integers(-20, 20)) for _ in range(3)],
        }
    if draw(st.integers(0, 3)) == 0:
        case["cm_mode"] = "lattice"
    if draw(st.integers(0, 3)) == 0:
        case["density"] = float(draw(st.integers(1, 9)))
    return case


@subcheck("C03", "args", shards={"quick": 6, "thorough": 12})
def s_args(ctx):
    ctx.given("C03.args", args_case(), n={"quick": 1500, "thorough": 40000})


# ======================================================================================= oracle self-check


@body("C03.oracle")
def b_oracle(case, ctx):
    """Harness self-check (a failure here is a harness error): fast integer path == Fraction path, and
    analytic values of a box and of the unit right tetrahedron."""
    from fractions import Fraction

    V, F = build_case(case)
    T = V[F]
    a, b = ox.integrals(T), ox.integrals_fraction(T)
    assert a.V == b.V and a.m1 == b.m1 and a.m2 == b.m2, "fast path differs from Fraction path"
    Vb, Fb = gmesh.box((2.0, 3.0, 4.0))
    e = ox.integrals((Vb + [1.0, 2.0, 3.0])[Fb])
    assert e.V == 24 and e.center_mass() == [1, 2, 3]
    assert e.inertia_cm() == [[50, 0, 0], [0, 40, 0], [0, 0, 26]]
    assert e.inertia_about([0, 0, 0])[0][0] == 50 + 24 * (4 + 9) and e.inertia_about([0, 0, 0])[0][1] == -24 * 2
    Vt, Ft = gmesh.tetra()
    e = ox.integrals(Vt[Ft])
    assert e.V == Fraction(1, 6) and e.m1 == [Fraction(1, 24)] * 3
    assert e.m2[0][0] == Fraction(1, 60) and e.m2[0][1] == Fraction(1, 120)
    ctx.note(cls="oracle_selfcheck")


@subcheck("C03", "oracle", shards={"quick": 1, "thorough": 1})
def s_oracle(ctx):
    ctx.given("C03.oracle", mesh_case(), n={"quick": 40, "thorough": 400})


# registered last: the Hypothesis sub-checks above are scheduled first, the long enumeration fills the remaining workers
@subcheck("C03", "grid", shards={"quick": 10, "thorough": 16})
def s_grid(ctx):
    ctx.enumerate("C03.grid", _blocks("tet", 2, 1, 0, block=512), label="tetra_grid_{0,1}^12")
    ctx.enumerate("C03.grid", _blocks("pillow", 3, 1, 0, block=1024), label="pillow_grid_{0,1,2}^9")
    if ctx.tier == "quick":
        step = 4  # coprime with 3: every digit position takes every value
        ctx.enumerate("C03.grid", _blocks("tet", 3, step, ctx.seed % step), label="tetra_grid_{0,1,2}^12_stride4", complete=False)
    else:
        ctx.enumerate("C03.grid", _blocks("tet", 3, 1, 0), label="tetra_grid_{0,1,2}^12")
        ctx.enumerate("C03.grid", _blocks("tet", 4, 1, 0), label="tetra_grid_{0,1,2,3}^12")
        ctx.enumerate("C03.grid", _blocks("pillow", 4, 1, 0), label="pillow_grid_{0,1,2,3}^9")


REQUIRED_CLASSES["C03"] = [
    "grid:tet:k2",
    "grid:tet:k2:nontrivial",
    "grid:tet:k2:flat",
    "grid:tet:k2:negative_volume",
    "grid:tet:k3:nontrivial",
    "grid:pillow:k3",
    "coords:int_exact",
    "coords:float",
    "placement:random",
    "placement:randint",
    "genus:1",
    "kind:pillow",
    "bodies:multi",
    "overlap:yes",
    "lattice",
    "scale:1e-3",
    "scale:1e+6",
    "far:>=100_diameters",
    "cond:well",
    "cond:volume_below_1000tol",
    "frame:rigid",
    "density:zero",
    "density:negative_zero",
    "density:negative",
    "density:tiny",
    "density:huge",
    "density:int_typed",
    "density2:zero",
    "args:skip_inertia=int:False",
    "args:skip_inertia=int:True",
    "warm:uniform_scale_on_warm_object",
    "warm:mirror_on_warm_object",
    "warm:op:apply_scale",
    "warm:op:apply_translation",
    "warm:op:similarity",
    "warm:op:lattice",
    "warm:pre_reads:0",
    "args:triangles=f32",
    "args:triangles=f16",
    "args:triangles=list",
    "args:vertices=f32",
    "args:center_mass=f32",
    "args:center_mass=list",
    "args:crosses=list",
    "args:frame=intlist",
    "args:frame=int32",
    "args:frame=f32",
    "args:integer_frame_with_fractional_centre",
]
