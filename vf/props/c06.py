"""C06 — row grouping and uniqueness primitives are exact (trimesh/grouping.py)."""

import itertools
from collections import Counter, OrderedDict

import numpy as np
from hypothesis import strategies as st

from trimesh import grouping

from ..core import RULES, ASSUMPTIONS, REQUIRED_CLASSES, Violation, body, check, subcheck

RULES["C06"] = (
    "Integer (n,c) arrays with rows drawn with replacement from a small row pool whose entries come from the "
    "bit-packing boundary set {0,+-1,+-(2^k-2..2^k+1)} for k in 15,16,20,21,31,32,62,63 mixed with small values, "
    "dtypes int8..int64/uint8..uint32/bool, c=1..6 and 1-D; float rows k*10^-d+delta away from rounding boundaries; "
    "blocks/merge_runs/group_min/unique_value_in_row enumerated over all sequences of length<=9 on {0,1,2} x all "
    "option combinations. Oracle: python dict/tuple grouping and a direct circular scan. Non-trivial: at least one "
    "duplicate class and at least two classes (rows/values), or a sequence with >=2 runs (blocks)."
)
ASSUMPTIONS["C06"] = [
    "blocks(wrap=True) is read as maximal runs of the circular sequence filtered by min_len<=len<=max_len",
    "empty groups in a returned partition are ignored (harmless)",
    "float rows are generated away from the documented 'go either way' rounding boundary",
]

I64_MAX = 2**63 - 1
I64_MIN = -(2**63)

BOUNDARY = sorted(
    {
        v
        for k in (7, 8, 15, 16, 20, 21, 31, 32, 62, 63)
        for d in (-2, -1, 0, 1)
        for s in (1, -1)
        for v in [s * (2**k + d)]
        if I64_MIN <= v <= I64_MAX
    }
    | {0, 1, -1, 2, 3, I64_MAX, I64_MIN, I64_MIN + 1}
)

DTYPES = ["int8", "int16", "int32", "int64", "uint8", "uint16", "uint32", "bool"]


def fits(vals, dtype):
    if dtype == "bool":
        return all(v in (0, 1) for v in vals)
    info = np.iinfo(dtype)
    return all(info.min <= v <= info.max for v in vals)


def mag_class(vals, c):
    m = max([abs(v) for v in vals] + [0])
    if c in (1, 2, 3, 4):
        thr = 2 ** (64 // c - 1) - 1
        if m >= thr:
            return f"c{c}:>=pack_limit"
        if m >= thr - 3:
            return f"c{c}:at_pack_limit"
        return f"c{c}:below_pack_limit"
    return f"c{min(c,5)}:void_path"


@st.composite
def int_rows(draw, max_c=6):
    c = draw(st.integers(1, max_c))
    # restrict magnitude pool so that boundary values for this c are common
    thr_k = {1: 63, 2: 31, 3: 20, 4: 15}.get(c, 31)
    near = [v for v in BOUNDARY if abs(abs(v) - 2**thr_k) <= 3 or abs(v) <= 3]
    elem = st.one_of(
        st.sampled_from(near),
        st.sampled_from(BOUNDARY),
        st.integers(-5, 5),
        st.integers(-(2**thr_k) - 2, 2**thr_k + 2) if thr_k < 63 else st.integers(I64_MIN, I64_MAX),
    )
    pool = draw(st.lists(st.lists(elem, min_size=c, max_size=c), min_size=1, max_size=6))
    n = draw(st.integers(0, 24))
    idx = draw(st.lists(st.integers(0, len(pool) - 1), min_size=n, max_size=n))
    rows = [pool[i] for i in idx]
    flat = [v for r in rows for v in r]
    ok = [d for d in DTYPES if fits(flat, d)]
    dtype = draw(st.sampled_from(ok)) if ok else "int64"
    return {"rows": rows, "c": c, "dtype": dtype, "layout": draw(st.sampled_from(LAYOUTS))}


LAYOUTS = ["C", "C", "F", "T", "strided", "readonly", "list"]


def with_layout(data, layout):
    """the same rows in another memory layout / container: equal rows must stay equal whatever the strides are"""
    if layout == "F":
        return np.asfortranarray(data)
    if layout == "T":
        return np.ascontiguousarray(data.T).T  # column-major memory reached through a transpose
    if layout == "strided":
        big = np.zeros((len(data) * 2, data.shape[1] * 2), dtype=data.dtype) if data.ndim == 2 else np.zeros(len(data) * 2, dtype=data.dtype)
        if data.ndim == 2:
            big[::2, ::2] = data
            return big[::2, ::2]
        big[::2] = data
        return big[::2]
    if layout == "readonly":
        out = data.copy()
        out.flags.writeable = False
        return out
    if layout == "list":
        return data.tolist() if len(data) else data
    return data


def _keys(h):
    if h.dtype.kind == "V":
        return [x.tobytes() for x in h]
    return [int(x) for x in h]


def _partition(list_of_index_arrays):
    return Counter(frozenset(int(i) for i in g) for g in list_of_index_arrays if len(g) > 0)


@body("C06.rows")
def b_rows(case, ctx):
    rows = [tuple(r) for r in case["rows"]]
    c = case["c"]
    data = with_layout(np.array(case["rows"], dtype=case["dtype"]).reshape((-1, c)), case.get("layout", "C"))
    n = len(rows)
    classes = OrderedDict()
    for i, r in enumerate(rows):
        classes.setdefault(r, []).append(i)
    ctx.note(
        nontrivial=(len(classes) >= 2 and any(len(v) >= 2 for v in classes.values())),
        cls=[mag_class([v for r in rows for v in r], c) + ":" + ("void" if c > 4 else "pack"), "rows:layout=" + case.get("layout", "C")]
        + (["rows:column_major_void_fallback"] if case.get("layout") in ("F", "T") and n >= 2 and (c > 4 or "pack_limit" in mag_class([v for r in rows for v in r], c) and ">=" in mag_class([v for r in rows for v in r], c)) else []),
    )
    ref_part = Counter(frozenset(v) for v in classes.values())

    # hashable_rows: equal rows <-> equal hashes
    h = grouping.hashable_rows(data)
    check(len(h) == n, "C06.rows|hashable_rows|length", f"{len(h)} != {n}")
    keys = _keys(h)
    by_key = {}
    for i, k in enumerate(keys):
        by_key.setdefault(k, []).append(i)
    check(
        Counter(frozenset(v) for v in by_key.values()) == ref_part,
        "C06.rows|hashable_rows|partition",
        lambda: f"hash classes {sorted(map(sorted, by_key.values()))} != row classes {sorted(classes.values())}",
    )

    # unique_rows
    for keep in (False, True):
        u, inv = grouping.unique_rows(data, keep_order=keep)
        u = np.asarray(u)
        inv = np.asarray(inv)
        sig = f"C06.rows|unique_rows|keep_order={keep}"
        check(len(inv) == n, sig + "|inverse_len", f"{len(inv)} != {n}")
        check(len(u) == len(classes), sig + "|count", f"{len(u)} unique, expected {len(classes)}")
        if n:
            check((u >= 0).all() and (u < n).all(), sig + "|index_range", str(u))
            check(np.array_equal(np.asarray(data)[u][inv], np.asarray(data)), sig + "|reconstruct", "data[unique][inverse] != data")
        firsts = sorted(v[0] for v in classes.values())
        check(sorted(int(i) for i in u) == firsts, sig + "|first_occurrence", f"{u.tolist()} vs firsts {firsts}")
        if keep:
            check(list(map(int, u)) == firsts, sig + "|order", f"{u.tolist()} not in first-occurrence order {firsts}")

    # group_rows without count
    g = grouping.group_rows(data)
    check(_partition(g) == ref_part, "C06.rows|group_rows|partition", lambda: f"{[list(map(int, x)) for x in g]}")
    for k in (1, 2, 3):
        g = np.asarray(grouping.group_rows(data, require_count=k))
        want = Counter(frozenset(v) for v in classes.values() if len(v) == k)
        if k == 1:
            got = Counter(frozenset([int(i)]) for i in g.reshape(-1))
        else:
            check(g.ndim == 2 and g.shape[1] == k or g.size == 0, f"C06.rows|group_rows|require_count={k}|shape", str(g.shape))
            got = Counter(frozenset(int(i) for i in row) for row in g.reshape((-1, k)))
        check(got == want, f"C06.rows|group_rows|require_count={k}", lambda: f"got {sorted(map(sorted, got))} want {sorted(map(sorted, want))}")


@body("C06.boolean_rows")
def b_boolean_rows(case, ctx):
    c = case["c"]
    a = with_layout(np.array(case["a"], dtype=case.get("dtype_a", "int64")).reshape((-1, c)), case.get("layout_a", "C"))
    b = with_layout(np.array(case["b"], dtype=case.get("dtype_b", "int64")).reshape((-1, c)), case.get("layout_b", "C"))
    if isinstance(a, list) or isinstance(b, list):
        a, b = np.asarray(a, dtype=case.get("dtype_a", "int64")).reshape((-1, c)), np.asarray(b, dtype=case.get("dtype_b", "int64")).reshape((-1, c))
    sa = {tuple(r) for r in case["a"]}
    sb = {tuple(r) for r in case["b"]}
    mixed = case.get("dtype_a", "int64") != case.get("dtype_b", "int64")
    ctx.note(nontrivial=bool(sa & sb) and bool(sa - sb), cls=[f"boolean_rows:c{min(c, 5)}"] + (["boolean_rows:mixed_dtypes"] if mixed else [])
             + (["boolean_rows:b_exceeds_dtype_of_a"] if mixed and len(case["b"]) and not fits([v for r in case["b"] for v in r], case.get("dtype_a", "int64")) else []))
    got = grouping.boolean_rows(a, b, operation=np.intersect1d)
    check({tuple(int(v) for v in r) for r in got} == (sa & sb) and len(got) == len(sa & sb), "C06.boolean_rows|intersect", lambda: f"{got.tolist()} vs {sorted(sa & sb)}")
    got = grouping.boolean_rows(a, b, operation=np.setdiff1d)
    check({tuple(int(v) for v in r) for r in got} == (sa - sb) and len(got) == len(sa - sb), "C06.boolean_rows|setdiff", lambda: f"{got.tolist()} vs {sorted(sa - sb)}")


@body("C06.values")
def b_values(case, ctx):
    vals = case["values"]
    n = len(vals)
    data = np.array(vals, dtype=case["dtype"])
    classes = OrderedDict()
    for i, v in enumerate(vals):
        classes.setdefault(v, []).append(i)
    near = n >= 2 and any(0 < abs(a - b) <= 6 and abs(a) > 2**53 for a, b in zip(vals, vals[1:]))
    ctx.note(nontrivial=(len(classes) >= 2 and any(len(v) >= 2 for v in classes.values())), cls=["values:" + case["dtype"]] + (["values:adjacent_distinct_above_2^53"] if near else []))
    # group with bounds
    for mn, mx in case["bounds"]:
        g = grouping.group(data, min_len=mn, max_len=mx)
        want = Counter(
            frozenset(v) for v in classes.values() if (mn is None or len(v) >= mn) and (mx is None or len(v) <= mx)
        )
        check(_partition(g) == want, f"C06.values|group|min={mn is not None}|max={mx is not None}", lambda: f"min={mn} max={mx} got {[list(map(int, x)) for x in g]}")
    # unique_ordered
    u, idx, inv = grouping.unique_ordered(data, return_index=True, return_inverse=True)
    first = [v[0] for v in classes.values()]
    check([int(x) for x in u] == [int(k) for k in classes.keys()], "C06.values|unique_ordered|values", f"{u.tolist()}")
    check([int(x) for x in idx] == first, "C06.values|unique_ordered|index", f"{idx.tolist()} vs {first}")
    if n:
        check(np.array_equal(np.asarray(u)[inv], data), "C06.values|unique_ordered|inverse", "unique[inverse] != data")
    plain = grouping.unique_ordered(data)
    check(np.array_equal(plain, u), "C06.values|unique_ordered|plain", "differs from flagged call")
    # unique_bincount for non-negative signed ints
    if data.dtype.kind == "i" and n and min(vals) >= 0 and max(vals) < 10**6:
        ml = case["minlength"]
        ub, inv, cnt = grouping.unique_bincount(data, minlength=ml, return_inverse=True, return_counts=True)
        cn = Counter(vals)
        check([int(x) for x in ub] == sorted(cn), "C06.values|unique_bincount|unique", f"{ub.tolist()}")
        check([int(x) for x in cnt] == [cn[k] for k in sorted(cn)], "C06.values|unique_bincount|counts", f"{cnt.tolist()}")
        check(np.array_equal(ub[inv], data), "C06.values|unique_bincount|inverse", "unique[inverse] != values")
        only = grouping.unique_bincount(data, minlength=ml)
        check(np.array_equal(only, ub), "C06.values|unique_bincount|plain", "")
    # merge_runs
    if data.dtype.kind in "iub":
        m = grouping.merge_runs(data)
        want = [v for i, v in enumerate(vals) if i == 0 or v != vals[i - 1]]
        check([int(x) for x in m] == want, "C06.values|merge_runs" + ("|empty" if n == 0 else ""), f"{np.asarray(m).tolist()} vs {want}")
    # group_min: groups label + data
    if n and data.dtype.kind in "iu":
        labels = np.array(case["labels"][:n] + [0] * (n - len(case["labels"][:n])), dtype=np.int64)
        gm = grouping.group_min(labels, data)
        ref = {}
        for l, v in zip(labels.tolist(), vals):
            ref[l] = min(ref.get(l, v), v)
        check([int(x) for x in gm] == [ref[k] for k in sorted(ref)], "C06.values|group_min", f"{gm.tolist()}")


def ref_blocks(seq, min_len, max_len, wrap, only_nonzero):
    """Maximal runs (circular when wrap) as index lists, filtered."""
    n = len(seq)
    if n == 0:
        return []
    runs = []
    start = 0
    for i in range(1, n + 1):
        if i == n or seq[i] != seq[start]:
            runs.append(list(range(start, i)))
            start = i
    if wrap and len(runs) > 1 and seq[0] == seq[-1]:
        last = runs.pop()
        runs[0] = last + runs[0]
    out = []
    for r in runs:
        if len(r) < min_len or len(r) > max_len:
            continue
        if only_nonzero and not seq[r[0]]:
            continue
        out.append(r)
    return out


@body("C06.blocks")
def b_blocks(case, ctx):
    seq = case["seq"]
    mn, mx, wrap, onz = case["min_len"], case["max_len"], case["wrap"], case["only_nonzero"]
    mxv = np.inf if mx is None else mx
    nruns = 1 + sum(1 for i in range(1, len(seq)) if seq[i] != seq[i - 1]) if seq else 0
    wrapped = bool(wrap and nruns > 1 and seq[0] == seq[-1])
    ctx.note(nontrivial=nruns >= 2, cls="blocks:" + ("wrap_joined" if wrapped else "wrap" if wrap else "linear"))
    data = np.array(seq, dtype=case.get("dtype", "int64"))
    got = grouping.blocks(data, min_len=mn, max_len=mxv, wrap=wrap, only_nonzero=onz)
    want = ref_blocks(seq, mn, mxv, wrap, onz)
    g = sorted(tuple(int(i) for i in b) for b in got)
    w = sorted(tuple(b) for b in want)
    if g != w:
        # narrow signature: which branch of the wrap logic disagrees
        gs = Counter(frozenset(b) for b in g)
        ws = Counter(frozenset(b) for b in w)
        kind = "order_within_block" if gs == ws else "blocks"
        lim = "maxlen" if mx is not None else "nomax"
        raise Violation(
            f"C06.blocks|{kind}|wrap={wrap}|{lim}|joined={wrapped}" + ("|empty" if not seq else ""),
            f"seq={seq} min_len={mn} max_len={mx} wrap={wrap} only_nonzero={onz}: got {g} want {w}",
        )


@body("C06.unique_value_in_row")
def b_uvir(case, ctx):
    rows = case["rows"]
    data = np.array(rows, dtype=np.int64).reshape((-1, case["c"]))
    res = grouping.unique_value_in_row(data)
    check(res.shape == data.shape and res.dtype == bool, "C06.uvir|shape", str(res.shape))
    nt = False
    for r, m in zip(rows, res.tolist()):
        cnt = Counter(r)
        once = [j for j, v in enumerate(r) if cnt[v] == 1]
        # documented: one or zero True per row; if several values occur once, "the last one" (largest value,
        # since candidates are visited in np.unique order) is returned
        if not once:
            check(not any(m), "C06.uvir|none", f"row {r} -> {m}")
        else:
            nt = True
            check(sum(m) == 1, "C06.uvir|one_true", f"row {r} -> {m}")
            j = m.index(True)
            check(j in once, "C06.uvir|position", f"row {r} -> {m}")
            check(r[j] == max(r[k] for k in once), "C06.uvir|last_value", f"row {r} -> {m}")
    ctx.note(nontrivial=nt, cls="uvir")


@body("C06.float_rows")
def b_float_rows(case, ctx):
    d = case["digits"]
    ks = case["k"]  # (n,c) integer grid positions
    c = case["c"]
    delta = case["delta"]
    K = np.array(ks, dtype=np.int64).reshape((-1, c))
    D = np.array(delta, dtype=np.float64).reshape((-1, c))
    data = with_layout((K + D) * (10.0 ** (-d)), case.get("layout", "C"))
    if isinstance(data, list):
        data = np.asarray(data, dtype=np.float64).reshape((-1, c))
    # the documented rule: round(data * 10**digits - 1e-6); by construction |D| <= 0.3 so this is K
    q = np.round(data * 10**d - 1e-6).astype(np.int64)
    if not np.array_equal(q, K):
        return  # floating point of the generator itself moved a value: not a case
    rows = [tuple(r) for r in K.tolist()]
    classes = OrderedDict()
    for i, r in enumerate(rows):
        classes.setdefault(r, []).append(i)
    ctx.note(nontrivial=(len(classes) >= 2 and any(len(v) >= 2 for v in classes.values())), cls=f"float:c{c}:d{d}")
    fi = grouping.float_to_int(data, digits=d)
    check(np.array_equal(fi, K), "C06.float|float_to_int", lambda: f"{fi.tolist()} vs {K.tolist()}")
    u, inv = grouping.unique_rows(data, digits=d)
    check(len(u) == len(classes), "C06.float|unique_rows|count", f"{len(u)} vs {len(classes)}")
    if len(rows):
        check(np.array_equal(K[u][inv], K), "C06.float|unique_rows|reconstruct", "")
    g = grouping.group_rows(data, digits=d)
    check(_partition(g) == Counter(frozenset(v) for v in classes.values()), "C06.float|group_rows", "")
    if c == 1:
        uf, ui, uinv = grouping.unique_float(data.reshape(-1), return_index=True, return_inverse=True, digits=d)
        check(len(uf) == len(classes), "C06.float|unique_float|count", "")
        if len(rows):
            check(np.array_equal(K.reshape(-1)[ui][uinv], K.reshape(-1)), "C06.float|unique_float|reconstruct", "")


@body("C06.grid_injective")
def b_grid(case, ctx):
    """hashable_rows on the full cartesian grid V^c of a value set V: every row is distinct, so every
    hash must be distinct -- this checks *all pairs* of grid rows for collisions in one call."""
    c = case["c"]
    V = np.array(case["values"], dtype=np.int64)
    grid = np.stack(np.meshgrid(*([V] * c), indexing="ij"), axis=-1).reshape((-1, c))
    if case.get("reverse"):
        grid = grid[::-1]
    ctx.note(nontrivial=True, cls=f"grid:c{c}")
    h = grouping.hashable_rows(grid)
    check(len(h) == len(grid), "C06.grid|length", "")
    nu = len(np.unique(h))
    if nu != len(grid):
        # find one colliding pair for the message
        order = np.argsort(h, kind="stable")
        hs = h[order]
        j = int(np.nonzero(hs[1:] == hs[:-1])[0][0])
        raise Violation("C06.grid|hashable_rows|collision", f"c={c}: rows {grid[order[j]].tolist()} and {grid[order[j + 1]].tolist()} hash equal")
    u, inv = grouping.unique_rows(grid)
    check(len(u) == len(grid), "C06.grid|unique_rows|count", f"{len(u)} != {len(grid)}")
    # duplicated grid: every class has exactly two members
    g = grouping.group_rows(np.vstack((grid, grid)), require_count=2)
    check(len(g) == len(grid) and (np.sort(g, axis=1)[:, 1] - np.sort(g, axis=1)[:, 0] == len(grid)).all(), "C06.grid|group_rows|pairs", "")


def grid_values(c, extra=()):
    p = 64 // c
    T = 2 ** (p - 1) - 1
    vals = {0, 1, -1, 2, -2, 3, T - 1, -(T - 1), T - 2, -(T - 2)}
    for j in range(0, p - 1, max(1, (p - 1) // (30 if c <= 2 else 7 if c == 3 else 4))):
        for v in (2**j, -(2**j), 2**j - 1, -(2**j) + 1):
            if abs(v) < T:
                vals.add(v)
    for v in extra:
        if abs(v) < T:
            vals.add(v)
    return sorted(vals)


# ---------------------------------------------------------------------------------- strategies


@st.composite
def values_case(draw):
    dtype = draw(st.sampled_from(["int64", "int32", "int16", "int8", "uint8", "uint16", "bool"]))
    if dtype == "bool":
        elem = st.integers(0, 1)
    else:
        info = np.iinfo(dtype)
        pool = [v for v in BOUNDARY if info.min <= v <= info.max]
        elem = st.one_of(st.sampled_from(pool), st.integers(max(info.min, -4), min(info.max, 6)))
    pool_vals = draw(st.lists(elem, min_size=1, max_size=5))
    if dtype != "bool" and draw(st.integers(0, 2)) == 0:
        # neighbours: distinct values a few units apart at a large magnitude (float64 cannot tell them apart above 2**53)
        base = draw(st.sampled_from([v for v in pool + [2**53, -(2**53), 2**53 + 2**20, 2**56 + 1, 3 * 2**60, -(2**61) - 5] if info.min <= v <= info.max]))
        pool_vals = [int(min(max(base + d, info.min), info.max)) for d in draw(st.lists(st.integers(-3, 3), min_size=2, max_size=5))]
    n = draw(st.integers(0, 20))
    vals = [pool_vals[i] for i in draw(st.lists(st.integers(0, len(pool_vals) - 1), min_size=n, max_size=n))]
    bounds = draw(
        st.lists(
            st.tuples(st.one_of(st.none(), st.integers(0, 4)), st.one_of(st.none(), st.integers(0, 4))),
            min_size=1,
            max_size=3,
        )
    )
    return {
        "values": vals,
        "dtype": dtype,
        "bounds": [list(b) for b in bounds],
        "minlength": draw(st.integers(0, 12)),
        "labels": draw(st.lists(st.integers(-2, 3), min_size=n, max_size=n)),
    }


@st.composite
def boolean_rows_case(draw):
    c = draw(st.integers(1, 5))
    elem = st.one_of(st.integers(-3, 3), st.sampled_from(BOUNDARY))
    pool = draw(st.lists(st.lists(elem, min_size=c, max_size=c), min_size=1, max_size=6))
    pick = st.lists(st.sampled_from(pool), min_size=0, max_size=8)
    a, b = draw(pick), draw(pick)
    # each operand in any integer dtype that holds its own values (the narrower one must not decide for both)
    signed = ["int8", "int16", "int32", "int64"]
    da = draw(st.sampled_from([d for d in signed if fits([v for r in a for v in r], d)] or ["int64"]))
    db = draw(st.sampled_from([d for d in signed if fits([v for r in b for v in r], d)] or ["int64"]))
    return {"c": c, "a": a, "b": b, "dtype_a": da, "dtype_b": db, "layout_a": draw(st.sampled_from(LAYOUTS[:6])), "layout_b": draw(st.sampled_from(LAYOUTS[:6]))}


@st.composite
def float_rows_case(draw):
    c = draw(st.integers(1, 4))
    d = draw(st.integers(0, 8))
    kel = st.integers(-1000, 1000)
    pool = draw(st.lists(st.lists(kel, min_size=c, max_size=c), min_size=1, max_size=5))
    n = draw(st.integers(0, 16))
    ks = [pool[i] for i in draw(st.lists(st.integers(0, len(pool) - 1), min_size=n, max_size=n))]
    delta = draw(
        st.lists(
            st.lists(st.floats(-0.3, 0.3, allow_nan=False), min_size=c, max_size=c),
            min_size=n,
            max_size=n,
        )
    )
    return {"c": c, "digits": d, "k": ks, "delta": delta, "layout": draw(st.sampled_from(LAYOUTS[:6]))}


@st.composite
def blocks_case(draw):
    alphabet = draw(st.sampled_from([[0, 1], [0, 1, 2], [0, 5, -3], [0, 1]]))
    runs = draw(st.lists(st.tuples(st.sampled_from(alphabet), st.integers(1, 5)), min_size=0, max_size=8))
    seq = [v for v, k in runs for _ in range(k)]
    return {
        "seq": seq,
        "min_len": draw(st.integers(1, 5)),
        "max_len": draw(st.one_of(st.none(), st.integers(1, 8))),
        "wrap": draw(st.booleans()),
        "only_nonzero": draw(st.booleans()),
        "dtype": draw(st.sampled_from(["int64", "bool", "int8"])) if set(seq) <= {0, 1} else "int64",
    }


@st.composite
def uvir_case(draw):
    c = draw(st.integers(1, 5))
    elem = st.integers(-2, 3)
    n = draw(st.integers(1, 8))
    return {"c": c, "rows": draw(st.lists(st.lists(elem, min_size=c, max_size=c), min_size=n, max_size=n))}


# ---------------------------------------------------------------------------------- sub-checks


@subcheck("C06", "rows", shards={"quick": 4, "thorough": 12})
def s_rows(ctx):
    ctx.given("C06.rows", int_rows(), n={"quick": 3000, "thorough": 120000})


@subcheck("C06", "rows_edge", shards={"quick": 1, "thorough": 1})
def s_rows_edge(ctx):
    # every column count x every single boundary value x {single row, duplicated row, two rows}
    def gen():
        for c in (1, 2, 3, 4, 5):
            yield {"rows": [], "c": c, "dtype": "int64"}
            for v in BOUNDARY:
                for w in (0, v, -1):
                    r1 = [v] + [w] * (c - 1)
                    r2 = [w] * (c - 1) + [v]
                    yield {"rows": [r1], "c": c, "dtype": "int64"}
                    yield {"rows": [r1, r2, r1], "c": c, "dtype": "int64"}
                    yield {"rows": [r2, r1, [0] * c, r2, r1], "c": c, "dtype": "int64"}

    ctx.enumerate("C06.rows", gen(), label="rows_boundary_grid")


@subcheck("C06", "grid", shards={"quick": 4, "thorough": 4})
def s_grid(ctx):
    def gen():
        for c in (1, 2, 3, 4):
            yield {"c": c, "values": grid_values(c)}
        for c in (2, 3, 4):
            p = 64 // c
            # values either side of the packing limit: the void fallback must be injective too
            yield {"c": c, "values": [0, 1, -1, 2 ** (p - 1) - 2, 2 ** (p - 1) - 1, 2 ** (p - 1), -(2 ** (p - 1)) + 1, -(2 ** (p - 1))]}
        for c in (5, 6):
            yield {"c": c, "values": [0, 1, -1, 2**31, -(2**31), 2**62, -(2**63), 2**63 - 1]}

    ctx.enumerate("C06.grid_injective", gen(), label="hashable_rows_pairwise_collision_grid")


@subcheck("C06", "values", shards={"quick": 2, "thorough": 8})
def s_values(ctx):
    ctx.given("C06.values", values_case(), n={"quick": 2000, "thorough": 60000})
    ctx.given("C06.boolean_rows", boolean_rows_case(), n={"quick": 1000, "thorough": 30000})
    ctx.given("C06.unique_value_in_row", uvir_case(), n={"quick": 800, "thorough": 20000})


@subcheck("C06", "float_rows", shards={"quick": 1, "thorough": 4})
def s_float(ctx):
    ctx.given("C06.float_rows", float_rows_case(), n={"quick": 1500, "thorough": 40000})


def _block_cases(maxlen, alphabet):
    for n in range(0, maxlen + 1):
        for seq in itertools.product(alphabet, repeat=n):
            for mn in (1, 2, 3, 4):
                for mx in (None, 1, 2, 3):
                    for wrap in (False, True):
                        for onz in (False, True):
                            yield {"seq": list(seq), "min_len": mn, "max_len": mx, "wrap": wrap, "only_nonzero": onz}


@subcheck("C06", "blocks_enum", shards={"quick": 8, "thorough": 16})
def s_blocks_enum(ctx):
    if ctx.tier == "quick":
        ctx.enumerate("C06.blocks", _block_cases(7, (0, 1, 2)), label="blocks_len<=7_alphabet3_all_options")
    else:
        ctx.enumerate("C06.blocks", _block_cases(9, (0, 1, 2)), label="blocks_len<=9_alphabet3_all_options")


@subcheck("C06", "blocks_hyp", shards={"quick": 1, "thorough": 4})
def s_blocks_hyp(ctx):
    ctx.given("C06.blocks", blocks_case(), n={"quick": 1500, "thorough": 40000})


REQUIRED_CLASSES["C06"] = [
    "c1:below_pack_limit:pack",
    "c2:at_pack_limit:pack",
    "c3:>=pack_limit:pack",
    "c4:at_pack_limit:pack",
    "blocks:wrap_joined",
    "values:adjacent_distinct_above_2^53",
]
