"""C05 — topological queries of Trimesh equal their combinatorial definitions
(trimesh/geometry.py, graph.py, base.py, curvature.py, grouping.py)."""

import itertools
import logging
import math
import zlib
from collections import Counter

import numpy as np
from hypothesis import strategies as st

import trimesh
from trimesh import geometry, graph

from .. import core
from ..core import ASSUMPTIONS, REQUIRED_CLASSES, RULES, Violation, body, subcheck
from ..gen import meshes
from ..oracle import c05_topo as O

RULES["C05"] = (
    "Face arrays as plain index triples with NO restriction (repeated indices inside a face, repeated faces, edges "
    "shared by 3+ faces, unreferenced vertices): (a) enumeration of every array of F<=2 faces over indices 0..3 "
    "(all 64 triples per face) plus a seeded 1/29 stride of F=3 in quick / all of F<=3 in thorough, each with vertex "
    "count max+1 and max+2; (b) Hypothesis F<=14 over V<=9 (free triples, distinct triples, fans around one edge, "
    "copies / reversed / rotated copies of earlier faces); (c) closed oriented templates (genus 0 and 1, 1-3 bodies) "
    "under random vertex relabelling, face permutation, per-face cyclic rotation, face deletion, duplication, "
    "flipping and inserted unreferenced vertices; "
    "(d) enumeration of two or three small closed pieces (pillow, tetrahedron, octahedron) which are disjoint or touch "
    "in one vertex (pinch), one edge or one triangle, in both orientations; (b) and (c) also glue pieces at randomly "
    "coinciding labels / welded vertices. Every case carries a uniform scale from 1e-6 .. 1e6 for its generic random "
    "(seeded) vertex positions and a drawn history of 0-3 in-place transforms (translation, uniform scale, rotation, "
    "reflection, general affine); the mesh is built with process=False, validate=False, a seeded random subset of the "
    "cached properties is read in random order before each transform and all of them after the last one, and every read "
    "is compared with the oracle restarted from the current face and vertex arrays. Oracle: direct "
    "counting in plain python (tuples, dict, Counter, union-find). Non-trivial: at least one sorted edge occurs in "
    "two or more different faces."
)
ASSUMPTIONS["C05"] = [
    "a loop edge (a,a) produced by a repeated index is an edge (it is listed by `edges`); vertex_neighbors may or may "
    "not list a vertex as its own neighbour when such a loop edge exists - both readings are accepted",
    "edges_unique, face_adjacency rows, vertex_neighbors entries, component lists and split results are compared as "
    "(multi)sets: no order is documented; `edges` / `edges_face` / `faces_unique_edges` order IS documented and checked",
    "is_watertight / is_winding_consistent of a mesh without faces is not checked (Trimesh answers through is_empty)",
    "the angle-defect clause is checked when the oracle finds the mesh closed manifold (every vertex referenced, every "
    "edge in exactly two faces, every vertex link one cycle) and the smallest interior angle exceeds 1e-4 rad, far from "
    "the documented tol.merge=1e-8 zeroing in triangles.angles",
    "grouping.group_rows / unique_rows are exercised through the mesh properties only (their own contract is C06)",
    "face_angles of a face are compared with atan2-form angles when its smallest angle exceeds 1e-4 rad; a face which "
    "repeats an index must have all-zero angles (triangles.angles docstring: degenerate angles are returned as zero)",
    "split() with its defaults (repair=True, only_watertight=True) may repair or drop OPEN pieces; only what is "
    "documented is demanded: closed pieces (>= 4 faces for only_watertight) come back exactly, nothing is merged or "
    "invented, every piece returned by only_watertight=True is closed",
    "apply_transform reverses every face for a reflection: the oracle restarts from mesh.faces / mesh.vertices (data), "
    "never from a cached query",
]

# vertex_face_indices logs a warning with a traceback for every degenerate face array; keep the run readable
logging.getLogger("trimesh").setLevel(logging.CRITICAL)

TWO_PI = 2.0 * math.pi
EPS = float(np.finfo(np.float64).eps)
ENGINES = ("scipy", "networkx")

QUERIES = [
    "edges", "edges_face", "edges_sorted", "edges_unique", "edges_unique_inverse", "edges_unique_length",
    "faces_unique_edges", "face_adjacency", "face_adjacency_edges", "face_adjacency_unshared", "vertex_neighbors",
    "vertex_faces", "vertex_degree", "referenced_vertices", "body_count", "euler_number", "is_watertight",
    "is_winding_consistent", "edges_sparse", "faces_sparse", "face_angles", "vertex_defects",
]  # fmt: skip

# signatures of the defects found on the unchanged tree: when a case fails several clauses the
# other clause is reported first, so that the search continues behind these
DEFERRED = (
    "C05.topo|vertex_degree|counts_index_slots|repeated_index",
    "C05.topo|vertex_faces|lists_face_per_slot|repeated_index",
    "C05.topo|exc|vertex_faces|ValueError|trimesh/geometry.py:vertex_face_indices|empty",
    "C05.topo|connected_components|min_len_ignored|engine=networkx",
    "C05.topo|face_angles|degenerate_not_zeroed|repeated_index",
    "C05.topo|vertex_defects|vertex|repeated_index",
)


def _frame(exc):
    """innermost trimesh frame of the traceback, not counting the array-tracking wrappers of
    caching.py (every numpy call on mesh.faces passes through them)"""
    import os
    import traceback

    found = None
    for fs in traceback.extract_tb(exc.__traceback__):
        fn = os.path.realpath(fs.filename)
        if fn.startswith(os.path.join(core.REPO, "trimesh") + os.sep):
            rel = os.path.relpath(fn, core.REPO)
            if found is None or not rel.endswith("caching.py"):
                found = (rel, fs.name)
    return found


class Collector:
    """collects every failed clause of one case; raises the most informative one at the end"""

    def __init__(self, prefix="C05.topo"):
        self.fails = []
        self.prefix = prefix

    def check(self, cond, sig, msg=""):
        if not cond:
            self.fails.append((sig, msg() if callable(msg) else msg))
        return bool(cond)

    def call(self, name, fn, cls):
        """run a trimesh call; an exception inside trimesh becomes a failed clause"""
        try:
            return fn()
        except Exception as e:  # noqa
            fr = _frame(e)
            if fr is None:
                raise
            self.fails.append((f"{self.prefix}|exc|{name}|{type(e).__name__}|{fr[0]}:{fr[1]}|{cls}", f"{type(e).__name__}: {e}"))
            return None

    def finish(self, case_text, ctx, focus=None):
        if not self.fails:
            return
        # stable sort: a clause that is not a listed known finding first, then one that is not among the
        # defects already found, then the clause a replay file wants to show (`focus`)
        self.fails.sort(key=lambda f: (ctx.is_known(f[0]) is not None, f[0].startswith(DEFERRED), bool(focus) and focus not in f[0]))
        sig, msg = self.fails[0]
        more = "" if len(self.fails) == 1 else f" (+{len(self.fails) - 1} more failed clauses: {sorted({f[0] for f in self.fails[1:]})[:4]})"
        raise Violation(sig, f"{msg}{more} :: {case_text}")


def _rows(a, width):
    """numpy (n,width) int array -> list of tuples of python ints (shape is checked)"""
    a = np.asarray(a)
    if a.size == 0:
        return []
    if a.ndim != 2 or a.shape[1] != width:
        raise Violation("C05.topo|shape", f"expected (n,{width}), got {a.shape}")
    return [tuple(int(v) for v in r) for r in a.tolist()]


def _parts(groups):
    """sequence of index sequences -> Counter of frozensets (a partition has every count 1)"""
    return Counter(frozenset(int(i) for i in g) for g in groups)


def _split_keys(parts):
    """list of sub-meshes -> Counter of (sorted face rows, vertex bytes)"""
    return Counter((tuple(sorted(_rows(m.faces, 3))), np.asarray(m.vertices, dtype=np.float64).tobytes()) for m in parts)


def _want_parts(partition, min_len=1):
    return Counter(p for p in partition if len(p) >= min_len)


SCALES = [1.0, 1e-6, 1e-5, 1e-4, 1e-3, 1e-2, 1e2, 1e4, 1e6]
STEP_KINDS = ["translate", "scale", "rigid", "mirror", "affine"]


def _oracle(faces, nv):
    """everything the counting oracle says about one face list"""
    w = {"faces": faces, "nv": nv, "nf": len(faces)}
    w["w_edges"], w["w_edges_face"] = O.directed_edges(faces)
    w["w_sorted"] = [O.sort_edge(e) for e in w["w_edges"]]
    w["occ"] = O.edge_occurrences(faces)
    w["w_adj"] = O.adjacency(faces)
    w["w_fcomp"] = O.face_components(faces)
    w["w_vcomp"] = O.vertex_components(faces, nv)
    w["w_vfaces"] = O.vertex_faces(faces, nv)
    w["w_degree"] = [len(r) for r in w["w_vfaces"]]
    w["w_mult"] = O.vertex_multiplicity(faces, nv)
    w["w_ref"] = O.referenced(faces, nv)
    w["w_euler"] = O.euler_number(faces, nv)
    w["w_water"] = O.watertight(faces)
    w["w_wind"] = O.winding_consistent(faces)
    w["rep"] = O.repeated_vertices(faces)
    w["cls"] = O.input_class(faces, nv)
    w["manifold"] = O.closed_manifold(faces, nv)
    return w


def _apply_step(mesh, step, scale):
    """one in-place transform of the mesh, built from a seed: translation, uniform scale, rotation +
    translation, rotation + reflection (flips the winding), well conditioned general affine map"""
    rs = np.random.RandomState(int(step["seed"]) & 0x7FFFFFFF)
    q, _ = np.linalg.qr(rs.normal(size=(3, 3)))
    if np.linalg.det(q) < 0:
        q[:, 0] *= -1.0
    shift = rs.uniform(-1.0, 1.0, 3) * scale
    kind = step["kind"]
    if kind == "translate":
        mesh.apply_translation(shift)
        return
    if kind == "scale":
        mesh.apply_scale(float(10.0 ** rs.uniform(-1.5, 1.5)))
        return
    m = np.eye(4)
    m[:3, 3] = shift
    if kind == "rigid":
        m[:3, :3] = q
    elif kind == "mirror":
        m[:3, :3] = q @ np.diag([-1.0, 1.0, 1.0])
    else:
        # I + E with |E| <= 0.75: singular values in [0.25, 1.75]
        m[:3, :3] = q @ (np.eye(3) + 0.25 * rs.uniform(-1.0, 1.0, (3, 3)))
    mesh.apply_transform(m)


@body("C05.topo")
def b_topo(case, ctx):
    faces = [tuple(int(v) for v in f) for f in case["faces"]]
    nv = int(case["nv"])
    nf = len(faces)
    src = case.get("src", "?")
    scale = float(case.get("scale", 1.0))
    steps = case.get("steps") or []
    pos = np.random.RandomState(int(case.get("pseed", 0)) & 0x7FFFFFFF).uniform(-1.0, 1.0, (nv, 3)) * scale
    farr = np.array(faces, dtype=np.int64).reshape((-1, 3))

    w = _oracle(faces, nv)
    occ, cls = w["occ"], w["cls"]
    shared = any(len({w["w_edges_face"][k] for k in ks}) >= 2 for ks in occ.values())
    labels = [f"{src.split(':')[0]}:{cls}"]
    if w["rep"]:
        labels.append("has:repeated_index")
    if any(len(ks) >= 3 for ks in occ.values()):
        labels.append("has:edge_count>=3")
    if len(set(tuple(sorted(f)) for f in faces)) < nf:
        labels.append("has:duplicate_face")
    if not all(w["w_ref"]):
        labels.append("has:unreferenced_vertex")
    if len(w["w_fcomp"]) > 1:
        labels.append("has:multi_face_component")
        if len(w["w_fcomp"]) > len([p for p in w["w_vcomp"] if len(p) > 1 or any(p & set(f) for f in faces)]):
            # more face components than vertex components: pieces touch without being adjacent
            labels.append(f"{src.split(':')[0]}:components_touch_closed" if w["w_water"] else "has:components_touch")
    if any(len(ks) == 2 for ks in occ.values()) and not w["w_wind"]:
        labels.append("has:winding_inconsistent")
    if any(r[2][0] == r[2][1] for r in w["w_adj"]):
        labels.append("has:adjacent_through_loop_edge")
    if w["manifold"]:
        labels.append("closed_manifold:euler=%d" % w["w_euler"] if w["w_euler"] in (0, 2) else "closed_manifold:euler=other")
        labels.append("closed_manifold:scale=%g" % scale)
    labels.append("scale=%g" % scale)
    labels += ["warm:" + st_["kind"] for st_ in steps] or ["fresh"]
    ctx.note(nontrivial=shared, cls=labels)

    # ------------------------------------------------------------------ implementation side
    col = Collector()
    mesh = trimesh.Trimesh(vertices=pos, faces=farr, process=False, validate=False)
    text = f"faces={case['faces'] if nf <= 16 else str(case['faces'][:16]) + '...'} nv={nv} scale={scale:g} steps={[s_['kind'] for s_ in steps]}"
    oseed = int(case.get("oseed", 0)) & 0x7FFFFFFF
    tag = ""
    for phase in range(len(steps) + 1):
        last = phase == len(steps)
        if phase:
            step = steps[phase - 1]
            done = col.call("apply:" + step["kind"], lambda: (_apply_step(mesh, step, scale), True)[1], cls)
            if done is None:
                break
            tag = "|after:" + "+".join(s_["kind"] for s_ in steps[:phase])
            # the face and vertex arrays are data, not cached queries: the oracle restarts from them
            now = [tuple(int(v) for v in f) for f in np.asarray(mesh.faces).reshape((-1, 3)).tolist()]
            if now != w["faces"]:
                w = _oracle(now, nv)
        rs = np.random.RandomState((oseed + 7919 * phase) & 0x7FFFFFFF)
        order = list(QUERIES)
        rs.shuffle(order)
        if not last:
            # a warm object: only some of the queries have been asked before the next transform
            order = [n for n in order if rs.randint(0, 2)]
        got = dict.fromkeys(QUERIES)
        for name in order:
            before = len(col.fails)
            got[name] = col.call(name, lambda name=name: getattr(mesh, name), cls + tag)
            if got[name] is None and len(col.fails) == before:
                col.check(False, f"C05.topo|{name}|returned_None{tag}", f"mesh.{name} is None")
        w["pos"] = np.array(mesh.vertices, dtype=np.float64).reshape((-1, 3))
        w["farr"] = np.array(w["faces"], dtype=np.int64).reshape((-1, 3))
        try:
            _compare(col, mesh, got, w, tag, full=last)
        except Violation as v:
            col.fails.append((v.sig, v.msg))
    col.finish(text, ctx, case.get("focus"))


def _compare(col, mesh, got, w, tag="", full=True):
    """compare what was read (`got`, None = not read) with the oracle `w`; `full` adds the calls which
    are not cached properties (free functions, components on both engines, split); `tag` names the
    transforms applied before the read and is part of every signature"""
    faces, nv, nf, pos, farr = w["faces"], w["nv"], w["nf"], w["pos"], w["farr"]
    w_edges, w_edges_face, w_sorted, occ = w["w_edges"], w["w_edges_face"], w["w_sorted"], w["occ"]
    w_adj, w_fcomp, w_vcomp = w["w_adj"], w["w_fcomp"], w["w_vcomp"]
    rep = w["rep"]
    cls = w["cls"] + tag

    def check(cond, sig, msg=""):
        return col.check(cond, sig if sig.endswith(cls) or not tag else sig + tag, msg)

    # ---- edges: documented order, stacked in triplets
    if got["edges"] is not None:
        check(_rows(got["edges"], 2) == w_edges, "C05.topo|edges|order", lambda: f"edges {np.asarray(got['edges']).tolist()} want {w_edges}")
    if got["edges_face"] is not None:
        check([int(i) for i in np.asarray(got["edges_face"]).reshape(-1)] == w_edges_face, "C05.topo|edges_face", lambda: f"{np.asarray(got['edges_face']).tolist()} want {w_edges_face}")
    if got["edges_sorted"] is not None:
        check(_rows(got["edges_sorted"], 2) == w_sorted, "C05.topo|edges_sorted", lambda: f"{np.asarray(got['edges_sorted']).tolist()} want {w_sorted}")
    free = col.call("faces_to_edges", lambda: geometry.faces_to_edges(farr, return_index=True), cls) if full else None
    if free is not None:
        check(_rows(free[0], 2) == w_edges and [int(i) for i in free[1]] == w_edges_face, "C05.topo|faces_to_edges", "free function differs from definition")

    # ---- unique edges and the inverse
    eu = None
    if got["edges_unique"] is not None:
        eu = _rows(got["edges_unique"], 2)
        check(len(eu) == len(set(eu)), "C05.topo|edges_unique|repeats", lambda: f"{eu}")
        check(set(eu) == set(occ), "C05.topo|edges_unique|set", lambda: f"{sorted(eu)} want {sorted(occ)}")
        inv = got["edges_unique_inverse"]
        if inv is not None:
            inv = [int(i) for i in np.asarray(inv).reshape(-1)]
            ok = len(inv) == len(w_sorted) and all(0 <= i < len(eu) for i in inv) and [eu[i] for i in inv] == w_sorted
            check(ok, "C05.topo|edges_unique_inverse", lambda: f"edges_unique={eu} inverse={inv} edges_sorted want {w_sorted}")
        fue = got["faces_unique_edges"]
        if fue is not None:
            fue = _rows(fue, 3)
            ok = len(fue) == nf and all(0 <= i < len(eu) for r in fue for i in r) and [eu[i] for r in fue for i in r] == w_sorted
            check(ok, "C05.topo|faces_unique_edges", lambda: f"edges_unique={eu} faces_unique_edges={fue}")
        ln = got["edges_unique_length"]
        if ln is not None:
            ln = [float(x) for x in np.asarray(ln).reshape(-1)]
            ok = len(ln) == len(eu)
            if ok:
                for (a, b), x in zip(eu, ln):
                    if not (0 <= a < nv and 0 <= b < nv):
                        continue
                    ref = math.sqrt(sum((float(pos[a][i]) - float(pos[b][i])) ** 2 for i in range(3)))
                    # 3 products, 2 sums, 1 square root in either evaluation order: < 8 ulp
                    ok = ok and abs(x - ref) <= 8 * EPS * ref
            check(ok, "C05.topo|edges_unique_length", lambda: f"edges_unique={eu} lengths={ln}")

    # ---- face adjacency, shared edge and unshared vertices (row aligned)
    want_adj = Counter((r[0], r[1]) + r[2] for r in w_adj)
    unshared_of = {(r[0], r[1]) + r[2]: (r[3], r[4]) for r in w_adj}
    fa, fae, fau = got["face_adjacency"], got["face_adjacency_edges"], got["face_adjacency_unshared"]
    if fa is not None:
        fa = _rows(fa, 2)
        check(all(a < b for a, b in fa), "C05.topo|face_adjacency|row_order", lambda: f"{fa}")
        check(Counter(fa) == Counter(k[:2] for k in want_adj.elements()), f"C05.topo|face_adjacency|pairs|{cls}", lambda: f"pairs {sorted(fa)} want {sorted(k[:2] for k in want_adj.elements())}")
        if fae is not None:
            fae = _rows(fae, 2)
            ok = len(fae) == len(fa)
            check(ok and Counter(p + e for p, e in zip(fa, fae)) == want_adj, f"C05.topo|face_adjacency_edges|aligned|{cls}", lambda: f"pairs {fa} edges {fae} want {sorted(want_adj.elements())}")
            if fau is not None and ok:
                fau = _rows(fau, 2)
                ok = len(fau) == len(fa) and all(unshared_of.get(p + e) == u for p, e, u in zip(fa, fae, fau))
                check(ok, f"C05.topo|face_adjacency_unshared|{cls}", lambda: f"pairs {fa} edges {fae} unshared {fau} want {unshared_of}")
    free = col.call("graph.face_adjacency", lambda: graph.face_adjacency(faces=farr.copy(), return_edges=True), cls) if full else None
    if free is not None and nf:
        a, e = _rows(free[0], 2), _rows(free[1], 2)
        check(len(a) == len(e) and Counter(p + q for p, q in zip(a, e)) == want_adj, f"C05.topo|graph.face_adjacency(faces)|{cls}", lambda: f"pairs {a} edges {e} want {sorted(want_adj.elements())}")
        only = col.call("graph.face_adjacency", lambda: graph.face_adjacency(faces=farr.copy()), cls)
        if only is not None:
            check(Counter(_rows(only, 2)) == Counter(a), "C05.topo|graph.face_adjacency(faces)|return_edges_changes_pairs", "")

    # ---- vertex queries
    vn = got["vertex_neighbors"]
    if vn is not None:
        lo = O.vertex_neighbors(faces, nv, with_loops=False)
        hi = O.vertex_neighbors(faces, nv, with_loops=True)
        ok = len(vn) == nv
        if ok:
            for v in range(nv):
                g = [int(x) for x in vn[v]]
                ok = ok and len(g) == len(set(g)) and lo[v] <= set(g) <= hi[v]
        check(ok, f"C05.topo|vertex_neighbors|{cls}", lambda: f"{[[int(x) for x in r] for r in vn]} want {[sorted(s) for s in lo]} (own index allowed where a loop edge exists)")

    vd = got["vertex_degree"]
    if vd is not None:
        vd = [int(x) for x in np.asarray(vd).reshape(-1)]
        if vd != w["w_degree"]:
            if rep and vd == w["w_mult"]:
                sig = "C05.topo|vertex_degree|counts_index_slots|repeated_index"
            else:
                sig = f"C05.topo|vertex_degree|{cls}"
            check(False, sig, f"vertex_degree {vd}, number of faces each vertex is included in {w['w_degree']}")

    vf = got["vertex_faces"]
    if vf is not None:
        vf = np.asarray(vf)
        width = max(w["w_degree"]) if nv else 0
        ok = vf.ndim == 2 and vf.shape == (nv, width)
        rows = [[int(x) for x in r] for r in vf.tolist()] if vf.ndim == 2 else None
        if ok:
            for v in range(nv):
                k = len(w["w_vfaces"][v])
                ok = ok and sorted(rows[v][:k]) == w["w_vfaces"][v] and all(x == -1 for x in rows[v][k:])
        if not ok:
            per_slot = rows is not None and len(rows) == nv and bool(rep)
            if per_slot:
                slots = [sorted(i for i, f in enumerate(faces) for x in f if x == v) for v in range(nv)]
                wmax = max(w["w_mult"])
                per_slot = vf.shape == (nv, wmax) and all(
                    sorted(r[: len(s)]) == s and all(x == -1 for x in r[len(s) :]) for r, s in zip(rows, slots)
                )
            sig = "C05.topo|vertex_faces|lists_face_per_slot|repeated_index" if per_slot else f"C05.topo|vertex_faces|{cls}"
            check(False, sig, f"vertex_faces {rows} (shape {vf.shape}), incident faces {w['w_vfaces']} padded with -1 to width {width}")

    if got["referenced_vertices"] is not None:
        rv = np.asarray(got["referenced_vertices"])
        check(rv.dtype == bool and [bool(x) for x in rv.reshape(-1)] == w["w_ref"], "C05.topo|referenced_vertices", lambda: f"{rv.tolist()} want {w['w_ref']}")

    # ---- sparse forms
    es = got["edges_sparse"]
    if es is not None:
        dense = np.asarray(es.toarray())
        ok = dense.shape == (nv, nv) and {(int(a), int(b)) for a, b in zip(*np.nonzero(dense))} == set(w_edges)
        check(ok, "C05.topo|edges_sparse", lambda: f"shape {dense.shape} nonzero {np.argwhere(dense).tolist()} want {sorted(set(w_edges))}")
    fs = got["faces_sparse"]
    if fs is not None:
        dense = np.asarray(fs.toarray())
        ok = dense.shape == (nv, nf) and {(int(a), int(b)) for a, b in zip(*np.nonzero(dense))} == {(v, i) for i, f in enumerate(faces) for v in f}
        check(ok, "C05.topo|faces_sparse", lambda: f"shape {dense.shape} nonzero {np.argwhere(dense).tolist()}")

    # ---- components of the vertex graph
    if got["body_count"] is not None:
        check(int(got["body_count"]) == len(w_vcomp), "C05.topo|body_count", lambda: f"{got['body_count']} want {len(w_vcomp)} {sorted(map(sorted, w_vcomp))}")
    earr = np.array(w_edges, dtype=np.int64).reshape((-1, 2))
    aarr = np.array([r[:2] for r in w_adj], dtype=np.int64).reshape((-1, 2))
    used = sorted({v for f in faces for v in f})
    w_vcomp_used = {p for p in w_vcomp if p & set(used)}
    comp_key, comp_closed = {}, {}
    if full:
        for p_ in w_fcomp:
            vs = sorted({v for i in p_ for v in faces[i]})
            new = {v: k for k, v in enumerate(vs)}
            comp_key[p_] = (tuple(sorted(tuple(new[v] for v in faces[i]) for i in p_)), pos[vs].tobytes())
            comp_closed[p_] = O.watertight([faces[i] for i in p_])
    for eng in ENGINES if full else ():
        cc = col.call("connected_components", lambda: graph.connected_components(earr, nodes=np.arange(nv), engine=eng), cls)
        if cc is not None:
            check(_parts(cc) == _want_parts(w_vcomp), f"C05.topo|connected_components|vertex_graph|engine={eng}", lambda: f"{[list(map(int, c)) for c in cc]} want {sorted(map(sorted, w_vcomp))}")
        if nf:
            cc = col.call("connected_components", lambda: graph.connected_components(earr, engine=eng), cls)
            if cc is not None:
                check(_parts(cc) == _want_parts(w_vcomp_used), f"C05.topo|connected_components|nodes=None|engine={eng}", lambda: f"{[list(map(int, c)) for c in cc]} want {sorted(map(sorted, w_vcomp_used))}")
        # face graph, with the documented minimum component length
        for min_len in (1, 2, 3, 4):
            cc = col.call("connected_components", lambda: graph.connected_components(aarr, nodes=np.arange(nf), min_len=min_len, engine=eng), cls)
            if cc is None:
                continue
            g, wnt = _parts(cc), _want_parts(w_fcomp, min_len)
            if g != wnt:
                if min_len > 1 and eng == "networkx" and g == _want_parts({p for p in w_fcomp if len(p) >= 2}):
                    sig = "C05.topo|connected_components|min_len_ignored|engine=networkx"
                else:
                    sig = f"C05.topo|connected_components|face_graph|min_len{'=1' if min_len == 1 else '>1'}|engine={eng}"
                check(False, sig, f"min_len={min_len}: {[list(map(int, c)) for c in cc]} want {sorted(map(sorted, wnt))}")
        # split into sub-meshes by face connectivity: exact when nothing is repaired
        parts = col.call("split", lambda: mesh.split(only_watertight=False, repair=False, engine=eng), cls)
        if parts is not None:
            check(_split_keys(parts) == Counter(comp_key.values()), f"C05.topo|split|engine={eng}|{cls}", lambda: f"split gave faces {[np.asarray(s.faces).tolist() for s in parts]}, face components {sorted(map(sorted, w_fcomp))}")
    if full:
        # the documented defaults (repair=True fills small holes of OPEN pieces, only_watertight=True drops
        # pieces which stay open or have fewer than 4 faces): closed pieces must come back untouched, nothing
        # may be merged or invented.  One engine per case, alternating.
        eng = ENGINES[zlib.crc32(pos.tobytes()) % 2]
        closed = Counter(k for p_, k in comp_key.items() if comp_closed[p_])
        big = [p_ for p_ in w_fcomp if len(p_) >= 4]
        parts = col.call("split", lambda: mesh.split(only_watertight=False, engine=eng), cls)
        if parts is not None:
            have = _split_keys(parts)
            ok = len(parts) == len(w_fcomp) and not (closed - have) and Counter(k[1] for k in have.elements()) == Counter(k[1] for k in comp_key.values())
            check(ok, f"C05.topo|split(only_watertight=False)|engine={eng}|{cls}", lambda: f"split gave faces {[np.asarray(s.faces).tolist() for s in parts]}, face components {sorted(map(sorted, w_fcomp))} of which closed {sorted(sorted(p_) for p_ in w_fcomp if comp_closed[p_])}")
        parts = col.call("split", lambda: mesh.split(engine=eng), cls)
        if parts is not None:
            have = _split_keys(parts)
            closed_big = Counter(comp_key[p_] for p_ in big if comp_closed[p_])
            ok = not (closed_big - have) and len(parts) <= len(big)
            ok = ok and not (Counter(k[1] for k in have.elements()) - Counter(comp_key[p_][1] for p_ in big))
            ok = ok and all(len(k[0]) >= 4 and O.watertight(list(k[0])) for k in have.elements())
            check(ok, f"C05.topo|split(only_watertight=True)|engine={eng}|{cls}", lambda: f"split gave faces {[np.asarray(s.faces).tolist() for s in parts]}, face components with >= 4 faces {sorted(map(sorted, big))} of which closed {sorted(sorted(p_) for p_ in big if comp_closed[p_])}")
    if nf and full:
        lab = col.call("connected_component_labels", lambda: graph.connected_component_labels(aarr, node_count=nf), cls)
        if lab is not None:
            lab = [int(x) for x in np.asarray(lab).reshape(-1)]
            groups = {}
            for i, l in enumerate(lab):
                groups.setdefault(l, []).append(i)
            check(len(lab) == nf and _parts(groups.values()) == _want_parts(w_fcomp), "C05.topo|connected_component_labels", lambda: f"{lab} want {sorted(map(sorted, w_fcomp))}")

    # ---- scalars
    if got["euler_number"] is not None:
        check(int(got["euler_number"]) == w["w_euler"], "C05.topo|euler_number", lambda: f"{got['euler_number']} want {sum(w['w_ref'])} - {len(occ)} + {nf}")
    for name in ("is_watertight", "is_winding_consistent"):
        if got[name] is not None:
            check(isinstance(got[name], (bool, np.bool_)), f"C05.topo|{name}|type", lambda: f"{name} is {got[name]!r} ({type(got[name]).__name__}), not a bool")
    if nf:
        if got["is_watertight"] is not None:
            check(bool(got["is_watertight"]) == w["w_water"], f"C05.topo|is_watertight|{cls}", lambda: f"{got['is_watertight']}; edge counts {sorted(Counter(w_sorted).items())}")
        if got["is_winding_consistent"] is not None:
            check(bool(got["is_winding_consistent"]) == w["w_wind"], f"C05.topo|is_winding_consistent|{cls}", lambda: f"{got['is_winding_consistent']}; edges {w_edges}")
        free = col.call("graph.is_watertight", lambda: graph.is_watertight(earr.copy()), cls) if full else None
        if free is not None:
            check((bool(free[0]), bool(free[1])) == (w["w_water"], w["w_wind"]), "C05.topo|graph.is_watertight(edges)", lambda: f"{free} want {(w['w_water'], w['w_wind'])}")

    # ---- interior angles and angle defects (scale free: a uniformly scaled mesh has the same angles)
    fang, vdef = got["face_angles"], got["vertex_defects"]
    w_ang = O.face_angles(faces, pos.tolist()) if (fang is not None or vdef is not None) else None
    trusted = None
    if w_ang is not None:
        # a face is compared when it is degenerate by its indices (documented: "degenerate angles will be
        # returned as zero") or when its smallest angle is far above the documented tol.merge=1e-8 zeroing
        trusted = [a is None or min(a) > 1e-4 for a in w_ang]
    if fang is not None:
        fang = np.asarray(fang, dtype=np.float64)
        ok = fang.shape == (nf, 3)
        worst = None
        not_zeroed = set()
        if ok:
            for i, (a, row) in enumerate(zip(w_ang, fang.tolist())):
                if not trusted[i]:
                    continue
                if a is None:
                    if row != [0.0, 0.0, 0.0]:
                        not_zeroed.add(i)
                    continue
                else:
                    # arccos of a dot product of unit vectors: error <= few eps / sin(angle)
                    tol = 64 * EPS / math.sin(min(a))
                    good = all(abs(x - y) <= tol for x, y in zip(row, a))
                if not good:
                    worst = (i, faces[i], row, a)
                    break
        if not_zeroed:
            i = min(not_zeroed)
            check(False, "C05.topo|face_angles|degenerate_not_zeroed|repeated_index", f"face {i} {faces[i]} repeats an index (two coincident corners) but its angles are {fang[i].tolist()}, documented: degenerate angles are returned as zero; vertices {pos[list(faces[i])].tolist()}")
        check(ok and worst is None, "C05.topo|face_angles", lambda: f"shape {fang.shape}; face {worst[0]} {worst[1]} angles {worst[2]} want {worst[3] or 'zeros (repeated index)'}; vertices {pos[list(worst[1])].tolist()}" if worst else f"shape {fang.shape}")
    if vdef is not None:
        vdef = np.asarray(vdef, dtype=np.float64).reshape(-1)
        ok = len(vdef) == nv
        worst = None
        if ok:
            total = [0.0] * nv
            tol = [8 * EPS * TWO_PI] * nv
            fine = [True] * nv
            degenerate = [False] * nv
            for i, f in enumerate(faces):
                for k, v in enumerate(f):
                    if w_ang[i] is None:
                        degenerate[v] = True
                    if not trusted[i]:
                        fine[v] = False
                    elif w_ang[i] is not None:
                        total[v] += w_ang[i][k]
                        tol[v] += 64 * EPS / math.sin(min(w_ang[i])) + 4 * EPS * TWO_PI
            for v in range(nv):
                if fine[v] and abs(float(vdef[v]) - (TWO_PI - total[v])) > tol[v]:
                    worst = (v, float(vdef[v]), TWO_PI - total[v], "repeated_index" if degenerate[v] else "plain")
                    break
        check(ok and worst is None, "C05.topo|vertex_defects|vertex|" + (worst[3] if worst else "length"), lambda: f"defect of vertex {worst[0]} is {worst[1]!r}, 2*pi - sum of incident angles = {worst[2]!r}" if worst else f"length {len(vdef)} != {nv}")
        if ok and w["manifold"] and all(trusted):
            # every triangle's three angles sum to pi up to 2 roundings (third = pi - a - b); the
            # 3F+V additions of magnitude <= 2*pi*V each round once: worst case eps*2pi*(3F+V)^2
            tol_sum = EPS * TWO_PI * float(3 * nf + nv) ** 2
            total_sum = float(vdef.sum())
            check(abs(total_sum - TWO_PI * w["w_euler"]) <= tol_sum, "C05.topo|vertex_defects|sum", lambda: f"sum of defects {total_sum!r}, 2*pi*euler = {TWO_PI * w['w_euler']!r} (euler {w['w_euler']}), tol {tol_sum:.2e}")


# ---------------------------------------------------------------------------------- generators

TRIPLES4 = list(itertools.product(range(4), repeat=3))


def _enum_steps(k):
    """deterministic spread of warm-object histories over an enumeration: 1 case in 4 is transformed once,
    1 in 16 twice; the kinds cycle"""
    if k % 4 == 1:
        return [{"kind": STEP_KINDS[(k // 4) % 5], "seed": k}]
    if k % 16 == 3:
        return [{"kind": STEP_KINDS[(k // 16) % 5], "seed": k}, {"kind": STEP_KINDS[(k // 80) % 5], "seed": k + 1}]
    return []


def _enum_case(fs, extra, k, src="enum"):
    top = max([v for f in fs for v in f] + [-1])
    return {
        "faces": [list(f) for f in fs],
        "nv": top + 1 + extra,
        "pseed": 1000 + k,
        "oseed": k,
        "scale": SCALES[(k // 3) % len(SCALES)],
        "steps": _enum_steps(k),
        "src": src,
    }


PIECES = {
    "pillow": [(0, 1, 2), (0, 2, 1)],
    "tetra": [(0, 2, 1), (0, 1, 3), (1, 2, 3), (2, 0, 3)],
    "octa": [(0, 2, 4), (2, 1, 4), (1, 3, 4), (3, 0, 4), (2, 0, 5), (1, 2, 5), (3, 1, 5), (0, 3, 5)],
}


def enum_glued(full):
    """two or three small closed pieces which are disjoint or touch in one vertex (pinch), one edge or one
    triangle, in both relative orientations, at every scale, fresh and after every kind of transform"""
    k = 0
    names = sorted(PIECES)
    for a in names:
        for b in names:
            for shared in (0, 1, 2, 3):
                for reverse in (False, True):
                    if shared < 2 and reverse:
                        continue
                    faces, n = O.glue(PIECES[a], PIECES[b], shared, reverse)
                    variants = [(faces, n)]
                    # a third piece pinched to the second one
                    f3, n3 = O.glue([faces[-1]] + faces[:-1], PIECES["pillow"], 1, False)
                    variants.append((f3, n3))
                    for fs, nn in variants:
                        for i, scale in enumerate(SCALES):
                            histories = [[]] + [[{"kind": kind, "seed": k}] for kind in STEP_KINDS]
                            # quick: every shape at every scale, the history cycling; thorough: the full product
                            for steps in histories if full else [histories[(i + k) % 6]]:
                                k += 1
                                yield {"faces": [list(f) for f in fs], "nv": nn + (k % 5 == 0), "pseed": 500 + k, "oseed": k,
                                       "scale": scale, "steps": steps, "src": "glued"}


@st.composite
def steps_and_scale(draw):
    steps = draw(st.sampled_from([0, 0, 0, 1, 1, 2, 3]))
    return {
        "scale": draw(st.sampled_from(SCALES)),
        "steps": [{"kind": draw(st.sampled_from(STEP_KINDS)), "seed": draw(st.integers(0, 2**31 - 1))} for _ in range(steps)],
    }


def enum_small(max_f):
    """every face array with at most max_f faces over indices 0..3, vertex count max+1 and max+2"""
    k = 0
    for nvert in (0, 1, 2):
        yield {"faces": [], "nv": nvert, "pseed": nvert, "oseed": nvert, "src": "enum"}
    for nf in range(1, max_f + 1):
        for fs in itertools.product(TRIPLES4, repeat=nf):
            for extra in (0, 1):
                k += 1
                yield _enum_case(fs, extra, k)


def enum_three(stride, offset):
    """F = 3 over indices 0..3: every `stride`-th array (stride 1 = complete)"""
    n = len(TRIPLES4)
    for i in range(offset % stride, n**3, stride):
        fs = (TRIPLES4[i // (n * n)], TRIPLES4[(i // n) % n], TRIPLES4[i % n])
        # the unreferenced-vertex variant alternates in the sample, both in the complete run
        for extra in (0, 1) if stride == 1 else (i // stride % 2,):
            yield _enum_case(fs, extra, i)


def _variant(face, how):
    a, b, c = face
    return [(a, b, c), (b, c, a), (c, a, b), (c, b, a), (b, a, c), (a, c, b)][how % 6]


@st.composite
def soup(draw):
    nvert = draw(st.integers(1, 9))
    mode = draw(st.sampled_from(["free", "distinct", "distinct", "sparse", "fan", "mixed", "strip", "bouquet"]))
    if nvert < 3 and mode in ("distinct", "fan", "sparse", "strip"):
        mode = "free"
    if nvert < 4 and mode == "bouquet":
        mode = "free"
    idx = st.integers(0, nvert - 1)
    free = st.tuples(idx, idx, idx)
    distinct = st.lists(idx, min_size=3, max_size=3, unique=True).map(tuple) if nvert >= 3 else free
    nbase = draw(st.integers(1, 10))
    if mode == "sparse":
        # few faces over many vertices: open, mostly manifold patches
        mode, nbase = "distinct", min(nbase, 4)
    if mode == "free":
        faces = draw(st.lists(free, min_size=nbase, max_size=nbase))
    elif mode == "distinct":
        faces = draw(st.lists(distinct, min_size=nbase, max_size=nbase))
    elif mode == "mixed":
        faces = draw(st.lists(st.one_of(distinct, distinct, free), min_size=nbase, max_size=nbase))
    elif mode == "bouquet":
        # 2-3 small closed pieces on randomly chosen labels: they are disjoint or touch in a vertex, an
        # edge or a triangle just as the labels happen to coincide; unused labels are squeezed out
        faces = []
        for _ in range(draw(st.integers(2, 3))):
            piece = PIECES[draw(st.sampled_from(["pillow", "pillow", "tetra"]))]
            lab = draw(st.lists(idx, min_size=4, max_size=4, unique=True))
            faces += [tuple(lab[v] for v in f) for f in piece]
        used = sorted({v for f in faces for v in f})
        faces = [tuple(used.index(v) for v in f) for f in faces]
        nvert = len(used)
    elif mode == "strip":
        # relabelled triangle strip: an open manifold patch referencing every vertex, some faces flipped
        lab = draw(st.permutations(list(range(nvert))))
        faces = []
        for i in range(nvert - 2):
            f = (lab[i], lab[i + 1], lab[i + 2]) if i % 2 == 0 else (lab[i + 1], lab[i], lab[i + 2])
            faces.append(_variant(f, draw(st.sampled_from([0, 0, 0, 1, 2, 3]))))
    else:
        # fan: many faces around one edge (a, b) plus a few others
        a, b = draw(st.lists(idx, min_size=2, max_size=2, unique=True))
        apex = draw(st.lists(idx.filter(lambda v: v not in (a, b)), min_size=1, max_size=5))
        faces = [(a, b, c) if draw(st.booleans()) else (b, a, c) for c in apex]
        faces += draw(st.lists(distinct, min_size=0, max_size=5))
    # copies (rotated / reversed) of earlier faces
    ncopy = min(draw(st.sampled_from([0, 0, 0, 1, 2, 4])), 14 - len(faces)) if faces else 0
    for _ in range(ncopy):
        src = faces[draw(st.integers(0, len(faces) - 1))]
        faces.append(_variant(src, draw(st.integers(0, 5))))
    if faces and draw(st.booleans()):
        faces = list(draw(st.permutations(faces)))
    extra = draw(st.sampled_from([0, 0, 0, 1, 2]))
    case = {
        "faces": [list(f) for f in faces],
        "nv": nvert + extra,
        "pseed": draw(st.integers(0, 2**31 - 1)),
        "oseed": draw(st.integers(0, 2**31 - 1)),
        "src": "hyp",
    }
    case.update(draw(steps_and_scale()))
    return case


POOL_KINDS = ["pillow", "tetra", "octa", "box", "icos", "prism", "torus", "torus", "uvsphere"]


@st.composite
def pool_case(draw):
    spec = draw(meshes.mesh_spec(kinds=POOL_KINDS, max_parts=3, jitter=False, max_faces=100))
    _, F = meshes.build(spec)
    F = F.copy()
    nvert = int(F.max()) + 1
    rs = np.random.RandomState(draw(st.integers(0, 2**31 - 1)))
    ops = draw(
        st.fixed_dictionaries(
            {
                "relabel": st.booleans(),
                "permute": st.booleans(),
                "rotate": st.booleans(),
                "delete": st.sampled_from([0, 0, 1, 2, 5]),
                "duplicate": st.sampled_from([0, 0, 0, 1, 3]),
                "flip": st.sampled_from([0, 0, 0, 1, 4]),
                "extra": st.sampled_from([0, 0, 1, 3]),
                "weld": st.sampled_from(["", "", "vertex", "vertex", "vertex2", "edge"]),
            }
        )
    )
    tags = []
    if ops["weld"]:
        # identify vertices of two different bodies (of one body when there is only one): the pieces
        # then touch in a pinch vertex, in two pinch vertices or along an edge without becoming adjacent
        comps = sorted(map(sorted, O.vertex_components([tuple(f) for f in F.tolist()], nvert)))
        ca = comps[rs.randint(len(comps))]
        cb = comps[rs.randint(len(comps))]
        fa = F[rs.choice(np.nonzero(np.isin(F, ca).all(axis=1))[0])]
        fb = F[rs.choice(np.nonzero(np.isin(F, cb).all(axis=1))[0])]
        if ops["weld"] == "edge":
            pairs = [(fa[0], fb[1]), (fa[1], fb[0])]
        elif ops["weld"] == "vertex2":
            pairs = [(fa[0], fb[0]), (rs.choice(ca), rs.choice(cb))]
        else:
            pairs = [(fa[rs.randint(3)], fb[rs.randint(3)])]
        for u, v in pairs:
            u, v = int(min(u, v)), int(max(u, v))
            if u == v or v >= nvert:
                continue
            F[F == v] = u
            F[F > v] -= 1
            nvert -= 1
            pairs = [(a - (a > v), b - (b > v)) for a, b in pairs]
        tags.append("weld_" + ops["weld"])
    if ops["delete"]:
        keep = np.ones(len(F), dtype=bool)
        keep[rs.choice(len(F), size=min(ops["delete"], len(F) - 1), replace=False)] = False
        F = F[keep]
        tags.append("del")
    if ops["flip"]:
        i = rs.choice(len(F), size=min(ops["flip"], len(F)), replace=False)
        F[i] = F[i][:, ::-1]
        tags.append("flip")
    if ops["duplicate"]:
        i = rs.choice(len(F), size=ops["duplicate"], replace=True)
        F = np.vstack((F, F[i]))
        tags.append("dup")
    if ops["rotate"]:
        sh = rs.randint(0, 3, size=len(F))
        F = np.array([np.roll(f, s) for f, s in zip(F, sh)], dtype=np.int64).reshape((-1, 3))
    if ops["extra"]:
        nvert += ops["extra"]
        tags.append("unref")
    if ops["relabel"]:
        F = rs.permutation(nvert)[F]
    if ops["permute"]:
        F = F[rs.permutation(len(F))]
    kinds = "+".join(p["kind"] for p in spec["parts"])
    case = {
        "faces": F.tolist(),
        "nv": nvert,
        "pseed": draw(st.integers(0, 2**31 - 1)),
        "oseed": draw(st.integers(0, 2**31 - 1)),
        "src": f"pool:{kinds}:{'+'.join(tags) or 'intact'}",
    }
    case.update(draw(steps_and_scale()))
    return case


# ---------------------------------------------------------------------------------- free functions x array forms

FORMS = ["c_int64", "fortran", "transposed_view", "strided_view", "reversed_view", "readonly", "int32", "uint32", "list"]


def _form(rows, width, form):
    """the same (n, width) index values in a different container / memory layout / dtype"""
    base = np.array(rows, dtype=np.int64).reshape((-1, width))
    if form == "c_int64":
        return base
    if form == "fortran":
        return np.asfortranarray(base)
    if form == "transposed_view":
        return np.ascontiguousarray(base.T).T
    if form == "strided_view":
        big = np.full((2 * len(base) + 1, 2 * width + 1), -7, dtype=np.int64)
        big[1::2, 1::2] = base
        return big[1::2, 1::2]
    if form == "reversed_view":
        return np.ascontiguousarray(base[::-1, ::-1])[::-1, ::-1]
    if form == "readonly":
        out = base.copy()
        out.flags.writeable = False
        return out
    if form == "int32":
        return base.astype(np.int32)
    if form == "uint32":
        return base.astype(np.uint32)
    if form == "list":
        return [list(r) for r in base.tolist()]
    raise ValueError(form)


@body("C05.free")
def b_free(case, ctx):
    """the free functions of geometry / graph which take a face or edge array, given the same indices as a
    Fortran-ordered array, transposed / strided / reversed view, read-only array, int32 / uint32 array and
    nested list: the answers are those of the counting oracle whatever the container"""
    faces = [tuple(int(v) for v in f) for f in case["faces"]]
    nv = int(case["nv"])
    nf = len(faces)
    w = _oracle(faces, nv)
    cls = w["cls"]
    occ = w["occ"]
    shared = any(len({w["w_edges_face"][k] for k in ks}) >= 2 for ks in occ.values())
    forms = case.get("forms") or FORMS
    ctx.note(nontrivial=shared and nf >= 2, cls=[f"free:{cls}"] + ["form:" + f for f in forms])
    col = Collector("C05.free")
    want_adj = Counter((r[0], r[1]) + r[2] for r in w["w_adj"])
    incidence = {(v, i) for i, f in enumerate(faces) for v in f}
    half = nf // 2
    set_a = {O.sort_edge(e) for e in O.directed_edges(faces[:half])[0]}
    set_b = {O.sort_edge(e) for e in O.directed_edges(faces[half:])[0]}
    slot_weight = [float(k + 1) for k in range(3 * nf)]
    want_weight = {}
    for k in range(3 * nf):
        key = (faces[k // 3][k % 3], k // 3)
        want_weight[key] = want_weight.get(key, 0.0) + slot_weight[k]
    nodes_f = list(range(nf))
    for form in forms:
        tag = f"|form={form}|{cls}"
        fa = _form(faces, 3, form)
        ea = _form(w["w_edges"], 2, form)
        aa = _form([r[:2] for r in w["w_adj"]], 2, form)

        def call(name, fn):
            return col.call(name + "|form=" + form, fn, cls)

        if nf:
            r = call("faces_to_edges", lambda: geometry.faces_to_edges(fa, return_index=True))
            if r is not None:
                col.check(_rows(r[0], 2) == w["w_edges"] and [int(i) for i in r[1]] == w["w_edges_face"], "C05.free|faces_to_edges" + tag, lambda: f"{np.asarray(r[0]).tolist()} want {w['w_edges']}")
            r = call("index_sparse", lambda: geometry.index_sparse(nv, fa))
            sparse_ok = None
            if r is not None:
                dense = np.asarray(r.toarray())
                ok = dense.shape == (nv, nf) and {(int(a), int(b)) for a, b in zip(*np.nonzero(dense))} == incidence
                col.check(ok, "C05.free|index_sparse" + tag, lambda: f"nonzero (vertex, face) {np.argwhere(dense).tolist()} want {sorted(incidence)}")
                sparse_ok = r if ok else None
            r = call("index_sparse(data)", lambda: geometry.index_sparse(nv, fa, data=np.array(slot_weight), dtype=np.float64))
            if r is not None:
                dense = np.asarray(r.toarray())
                have = {(int(a), int(b)): float(dense[a, b]) for a, b in zip(*np.nonzero(dense))} if dense.shape == (nv, nf) else None
                col.check(have == want_weight, "C05.free|index_sparse(data)" + tag, lambda: f"data of slot k belongs to (faces[k//3][k%3], k//3): got {have} want {want_weight}")
            if sparse_ok is not None:
                r = call("vertex_face_indices", lambda: geometry.vertex_face_indices(nv, fa, sparse_ok))
                if r is not None:
                    r = np.asarray(r)
                    width = max(w["w_degree"]) if nv else 0
                    ok = r.shape == (nv, width)
                    if ok:
                        for v, row in enumerate(r.tolist()):
                            k = len(w["w_vfaces"][v])
                            ok = ok and sorted(row[:k]) == w["w_vfaces"][v] and all(x == -1 for x in row[k:])
                    col.check(ok, "C05.free|vertex_face_indices" + tag, lambda: f"{r.tolist()} want {w['w_vfaces']}")
            r = call("face_adjacency", lambda: graph.face_adjacency(faces=fa, return_edges=True))
            if r is not None:
                a, e = _rows(r[0], 2), _rows(r[1], 2)
                col.check(len(a) == len(e) and Counter(p + q for p, q in zip(a, e)) == want_adj, "C05.free|face_adjacency" + tag, lambda: f"pairs {a} edges {e} want {sorted(want_adj.elements())}")
            # the caller's array must not be modified (face_adjacency sorts edges in place)
            col.check(np.array_equal(np.asarray(fa), np.array(faces, dtype=np.int64).reshape((-1, 3))), "C05.free|input_modified" + tag, "a free function wrote into the face array it was given")
            if half:
                fb_a, fb_b = _form(faces[:half], 3, form), _form(faces[half:], 3, form)
                r = call("shared_edges", lambda: graph.shared_edges(fb_a, fb_b))
                if r is not None:
                    rows = _rows(r, 2)
                    col.check(len(rows) == len(set(rows)) and set(rows) == (set_a & set_b), "C05.free|shared_edges" + tag, lambda: f"{rows} want {sorted(set_a & set_b)}")
            # is_watertight and neighbors index / iterate their argument directly: arrays only
            r = call("is_watertight", lambda: graph.is_watertight(ea)) if form != "list" else None
            if r is not None:
                col.check((bool(r[0]), bool(r[1])) == (w["w_water"], w["w_wind"]), "C05.free|is_watertight" + tag, lambda: f"{r} want {(w['w_water'], w['w_wind'])}")
            r = call("edges_to_coo", lambda: graph.edges_to_coo(ea, count=nv))
            if r is not None:
                dense = np.asarray(r.toarray())
                col.check(dense.shape == (nv, nv) and {(int(a), int(b)) for a, b in zip(*np.nonzero(dense))} == set(w["w_edges"]), "C05.free|edges_to_coo" + tag, lambda: f"{np.argwhere(dense).tolist()}")
            if form != "list":
                r = call("neighbors", lambda: graph.neighbors(ea, max_index=nv))
                if r is not None:
                    hi = O.vertex_neighbors(faces, nv, with_loops=True)
                    col.check(len(r) == nv and all({int(x) for x in row} == hi[v] for v, row in enumerate(r)), "C05.free|neighbors" + tag, lambda: f"{[[int(x) for x in row] for row in r]} want {[sorted(x) for x in hi]}")
        nodes = _form([[i] for i in nodes_f], 1, form)
        nodes = [i[0] for i in nodes] if form == "list" else nodes[:, 0]
        vnodes = _form([[i] for i in range(nv)], 1, form)
        vnodes = [i[0] for i in vnodes] if form == "list" else vnodes[:, 0]
        for eng in ENGINES:
            if nf:
                r = call("connected_components", lambda: graph.connected_components(aa, nodes=nodes, engine=eng))
                if r is not None:
                    col.check(_parts(r) == _want_parts(w["w_fcomp"]), f"C05.free|connected_components|face_graph|engine={eng}" + tag, lambda: f"{[list(map(int, c)) for c in r]} want {sorted(map(sorted, w['w_fcomp']))}")
                r = call("connected_components", lambda: graph.connected_components(ea, nodes=vnodes, engine=eng))
                if r is not None:
                    col.check(_parts(r) == _want_parts(w["w_vcomp"]), f"C05.free|connected_components|vertex_graph|engine={eng}" + tag, lambda: f"{[list(map(int, c)) for c in r]} want {sorted(map(sorted, w['w_vcomp']))}")
        if nf:
            r = call("connected_component_labels", lambda: graph.connected_component_labels(ea, node_count=nv))
            if r is not None:
                groups = {}
                for i, l in enumerate(np.asarray(r).reshape(-1).tolist()):
                    groups.setdefault(l, []).append(i)
                col.check(_parts(groups.values()) == _want_parts(w["w_vcomp"]), "C05.free|connected_component_labels" + tag, lambda: f"{np.asarray(r).tolist()} want {sorted(map(sorted, w['w_vcomp']))}")
    col.finish(f"faces={case['faces'] if nf <= 16 else str(case['faces'][:16]) + '...'} nv={nv}", ctx, case.get("focus"))


def free_cases(tier_quick, seed):
    """enumerated part: every F <= 2 array over 4 indices (quick: every 5th), all forms"""
    for k, c in enumerate(enum_small(2)):
        if not tier_quick or k % 5 == seed % 5:
            yield {"faces": c["faces"], "nv": c["nv"], "src": "enum"}
    for k, c in enumerate(enum_glued(False)):
        if k % 54 == 0:
            yield {"faces": c["faces"], "nv": c["nv"], "src": "glued"}


@st.composite
def free_case(draw):
    c = draw(st.one_of(soup(), soup(), pool_case()))
    return {"faces": c["faces"], "nv": c["nv"], "src": c["src"]}


# ---------------------------------------------------------------------------------- sub-checks


@subcheck("C05", "enum_f2", shards={"quick": 8, "thorough": 8})
def s_enum_f2(ctx):
    ctx.enumerate("C05.topo", enum_small(2), label="all_face_arrays_F<=2_over_4_indices_x_{V,V+1}")


@subcheck("C05", "glued", shards={"quick": 4, "thorough": 4})
def s_glued(ctx):
    ctx.enumerate("C05.topo", enum_glued(ctx.tier != "quick"), label="two_or_three_closed_pieces_glued_in_0..3_vertices_x_scales_x_transforms", complete=ctx.tier != "quick")


@subcheck("C05", "enum_f3", shards={"quick": 16, "thorough": 16})
def s_enum_f3(ctx):
    if ctx.tier == "quick":
        ctx.enumerate("C05.topo", enum_three(29, 7 * ctx.seed), label="F=3_stride29_sample", complete=False)
    else:
        ctx.enumerate("C05.topo", enum_three(1, 0), label="all_face_arrays_F=3_over_4_indices_x_{V,V+1}")


@subcheck("C05", "soup", shards={"quick": 6, "thorough": 12})
def s_soup(ctx):
    ctx.given("C05.topo", soup(), n={"quick": 3000, "thorough": 100000})


@subcheck("C05", "pool", shards={"quick": 6, "thorough": 12})
def s_pool(ctx):
    ctx.given("C05.topo", pool_case(), n={"quick": 1200, "thorough": 25000})


@subcheck("C05", "free_enum", shards={"quick": 4, "thorough": 8})
def s_free_enum(ctx):
    ctx.enumerate("C05.free", free_cases(ctx.tier == "quick", ctx.seed), label="free_functions_x_array_forms_F<=2", complete=ctx.tier != "quick")


@subcheck("C05", "free_hyp", shards={"quick": 4, "thorough": 8})
def s_free_hyp(ctx):
    ctx.given("C05.free", free_case(), n={"quick": 800, "thorough": 20000})


REQUIRED_CLASSES["C05"] = [
    "form:fortran",
    "form:list",
    "free:edge_count>=3",
    "free:closed",
    "enum:repeated_index",
    "enum:edge_count>=3",
    "enum:duplicate_face",
    "enum:unreferenced_vertex",
    "enum:open",
    "hyp:edge_count>=3",
    "hyp:open",
    "pool:closed",
    "pool:open",
    "has:adjacent_through_loop_edge",
    "has:winding_inconsistent",
    "has:multi_face_component",
    "closed_manifold:euler=2",
    "closed_manifold:euler=0",
    "closed_manifold:scale=1e-06",
    "closed_manifold:scale=1e-05",
    "closed_manifold:scale=0.0001",
    "closed_manifold:scale=1e+06",
    "glued:components_touch_closed",
    "warm:translate",
    "warm:scale",
    "warm:rigid",
    "warm:mirror",
    "warm:affine",
    "fresh",
]
