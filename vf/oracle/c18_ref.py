"""Reference computations for C18 written from the definitions (plain python / numpy arithmetic on the
raw arrays, no trimesh code): edge incidence, closedness and winding, face components, signed volume per
component, area, Euler number, point-in-triangle, and one step of Loop subdivision with the masks stated
in the docstring of trimesh.remesh.subdivide_loop."""

import math
from collections import defaultdict

import numpy as np

EPS = float(np.finfo(np.float64).eps)


def faces_list(F):
    return [tuple(int(v) for v in f) for f in np.asarray(F).reshape((-1, 3)).tolist()]


def directed_edges(faces):
    """dict (a, b) -> number of faces traversing the edge in that direction"""
    d = defaultdict(int)
    for a, b, c in faces:
        d[(a, b)] += 1
        d[(b, c)] += 1
        d[(c, a)] += 1
    return d


def undirected_edges(faces):
    """dict (lo, hi) -> list of face indices"""
    d = defaultdict(list)
    for i, (a, b, c) in enumerate(faces):
        for x, y in ((a, b), (b, c), (c, a)):
            d[(x, y) if x < y else (y, x)].append(i)
    return d


def is_closed(faces):
    """every undirected edge belongs to exactly two faces"""
    return all(len(v) == 2 for v in undirected_edges(faces).values())


def is_consistent(faces):
    """no directed edge is traversed twice (adjacent faces traverse a shared edge in opposite directions)"""
    return all(v == 1 for v in directed_edges(faces).values())


def boundary_edges(faces):
    return sorted(e for e, v in undirected_edges(faces).items() if len(v) == 1)


def euler_number(faces):
    ref = {v for f in faces for v in f}
    return len(ref) - len(undirected_edges(faces)) + len(faces)


def face_components(faces):
    """face index sets connected through shared undirected edges (sorted lists, sorted by first element)"""
    parent = list(range(len(faces)))

    def find(x):
        while parent[x] != x:
            parent[x] = parent[parent[x]]
            x = parent[x]
        return x

    for fs in undirected_edges(faces).values():
        for j in fs[1:]:
            ra, rb = find(fs[0]), find(j)
            if ra != rb:
                parent[max(ra, rb)] = min(ra, rb)
    groups = defaultdict(list)
    for i in range(len(faces)):
        groups[find(i)].append(i)
    return [groups[k] for k in sorted(groups)]


def tet_terms(V, F):
    """signed volume of the tetrahedron (origin, v0, v1, v2) per face"""
    V = np.asarray(V, dtype=np.float64)
    F = np.asarray(F, dtype=np.int64).reshape((-1, 3))
    a, b, c = V[F[:, 0]], V[F[:, 1]], V[F[:, 2]]
    return np.einsum("ij,ij->i", a, np.cross(b, c)) / 6.0


def signed_volume(V, F, idx=None):
    """(volume, sum of |terms|) over the faces `idx` (all when None); fsum, so the only error is in the terms"""
    t = tet_terms(V, F)
    if idx is not None:
        t = t[np.asarray(idx, dtype=np.int64)]
    return math.fsum(t.tolist()), math.fsum(np.abs(t).tolist())


def face_areas(V, F):
    V = np.asarray(V, dtype=np.float64)
    F = np.asarray(F, dtype=np.int64).reshape((-1, 3))
    a, b, c = V[F[:, 0]], V[F[:, 1]], V[F[:, 2]]
    return np.sqrt((np.cross(b - a, c - a) ** 2).sum(axis=1)) / 2.0


def area(V, F):
    return math.fsum(face_areas(V, F).tolist())


def perimeter_sum(V, F):
    V = np.asarray(V, dtype=np.float64)
    F = np.asarray(F, dtype=np.int64).reshape((-1, 3))
    t = V[F]
    return float(
        np.sqrt(((t[:, 1] - t[:, 0]) ** 2).sum(1)).sum()
        + np.sqrt(((t[:, 2] - t[:, 1]) ** 2).sum(1)).sum()
        + np.sqrt(((t[:, 0] - t[:, 2]) ** 2).sum(1)).sum()
    )


def edge_lengths(V, F):
    """(n, 3) lengths of edges 01, 12, 20"""
    V = np.asarray(V, dtype=np.float64)
    F = np.asarray(F, dtype=np.int64).reshape((-1, 3))
    t = V[F]
    return np.stack(
        [np.sqrt(((t[:, (k + 1) % 3] - t[:, k]) ** 2).sum(1)) for k in range(3)], axis=1
    )


def unit_normals(V, F):
    V = np.asarray(V, dtype=np.float64)
    F = np.asarray(F, dtype=np.int64).reshape((-1, 3))
    a, b, c = V[F[:, 0]], V[F[:, 1]], V[F[:, 2]]
    n = np.cross(b - a, c - a)
    ln = np.sqrt((n**2).sum(axis=1))
    return n / np.where(ln > 0, ln, 1.0)[:, None], ln


def cyc(face):
    """canonical cyclic rotation of an oriented triple"""
    a, b, c = face
    m = min(a, b, c)
    if a == m:
        return (a, b, c)
    if b == m:
        return (b, c, a)
    return (c, a, b)


def barycentric(P, tri):
    """barycentric coordinates of points P (n,3) with respect to triangle tri (3,3) after projection to its plane,
    and the distance of every point from the plane"""
    a, b, c = tri
    u, v = b - a, c - a
    n = np.cross(u, v)
    nn = float(n @ n)
    w = P - a
    # standard: beta = ((w x v) . n) / n.n ; gamma = ((u x w) . n) / n.n
    beta = np.cross(w, v) @ n / nn
    gamma = np.cross(u, w) @ n / nn
    dist = (w @ n) / math.sqrt(nn)
    return np.column_stack((1.0 - beta - gamma, beta, gamma)), np.abs(dist)


# ------------------------------------------------------------------------------------------ Loop


def loop_beta(k):
    return (1.0 / k) * (5.0 / 8.0 - (3.0 / 8.0 + 0.25 * math.cos(2.0 * math.pi / k)) ** 2)


def loop_step(V, faces):
    """One Loop step with the masks of the docstring: odd vertex on an interior edge 3/8 (v0+v1) + 1/8 (v2+v3), on a
    boundary edge the midpoint; even interior vertex (1-k*beta) v + beta * sum(neighbours); even boundary vertex
    3/4 v + 1/8 (b0 + b1), b0/b1 the neighbours ALONG THE TWO BOUNDARY EDGES at v.
    faces: list of int triples, V: (n,3).  Requires every edge in one or two faces and every boundary vertex on
    exactly two boundary edges.  Returns (V', faces') with even vertices first (same index) and odd vertices after."""
    V = np.asarray(V, dtype=np.float64)
    und = undirected_edges(faces)
    nbr = defaultdict(set)
    bnbr = defaultdict(list)
    for (a, b), fs in und.items():
        nbr[a].add(b)
        nbr[b].add(a)
        if len(fs) == 1:
            bnbr[a].append(b)
            bnbr[b].append(a)
    out = [None] * len(V)
    for v in range(len(V)):
        if v in bnbr:
            b0, b1 = bnbr[v]
            out[v] = 0.75 * V[v] + 0.125 * (V[b0] + V[b1])
        elif v in nbr:
            k = len(nbr[v])
            beta = loop_beta(k)
            s = np.zeros(3)
            for w in sorted(nbr[v]):
                s = s + V[w]
            out[v] = (1.0 - k * beta) * V[v] + beta * s
        else:
            out[v] = V[v].copy()
    odd_index = {}
    for (a, b), fs in sorted(und.items()):
        if len(fs) == 1:
            p = 0.5 * (V[a] + V[b])
        else:
            opp = []
            for i in fs:
                opp += [x for x in faces[i] if x != a and x != b]
            p = 0.375 * (V[a] + V[b]) + 0.125 * (V[opp[0]] + V[opp[1]])
        odd_index[(a, b)] = len(out)
        out.append(p)

    def m(x, y):
        return odd_index[(x, y) if x < y else (y, x)]

    nf = []
    for a, b, c in faces:
        ab, bc, ca = m(a, b), m(b, c), m(c, a)
        nf += [(a, ab, ca), (ab, b, bc), (ca, bc, c), (ab, bc, ca)]
    return np.array(out, dtype=np.float64).reshape((-1, 3)), nf
