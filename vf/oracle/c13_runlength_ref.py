"""Pure-python reference run-length codec for C13 (written from the module docstring of
trimesh/voxel/runlength.py, sharing no code with it; python ints only, so nothing can overflow).

RLE  : flat list [value, count, value, count, ...]
BRLE : flat list of counts of alternating False/True runs, starting with the count of False."""


def runs(seq):
    """[(value, count)] of maximal runs."""
    out = []
    for v in seq:
        if out and out[-1][0] == v:
            out[-1][1] += 1
        else:
            out.append([v, 1])
    return [(v, c) for v, c in out]


def rle_encode_runs(rs, max_count=None):
    """Canonical RLE of maximal runs: a run longer than max_count becomes max_count pieces + non-zero rest."""
    out = []
    for v, c in rs:
        while max_count is not None and c > max_count:
            out += [v, max_count]
            c -= max_count
        out += [v, c]
    return out


def rle_encode(seq, max_count=None):
    return rle_encode_runs(runs(seq), max_count)


def rle_decode(rle):
    """dense list, or None if `rle` is not a valid encoding (odd length, negative or non-integer count)."""
    rle = list(rle)
    if len(rle) % 2:
        return None
    out = []
    for i in range(0, len(rle), 2):
        c = rle[i + 1]
        if c != int(c) or c < 0:
            return None
        out += [rle[i]] * int(c)
    return out


def brle_encode_runs(rs, max_count=None, pad_even=True):
    """Canonical BRLE of maximal runs of booleans: alternating counts starting with False; a run longer
    than max_count is written max_count, 0, max_count, 0, ..., rest."""
    counts = []
    cur = False
    if rs and rs[0][0]:
        counts.append(0)
        cur = True
    for v, c in rs:
        assert bool(v) == cur
        while max_count is not None and c > max_count:
            counts += [max_count, 0]
            c -= max_count
        counts.append(c)
        cur = not cur
    if pad_even and len(counts) % 2:
        counts.append(0)
    return counts


def brle_encode(seq, max_count=None, pad_even=True):
    return brle_encode_runs(runs([bool(v) for v in seq]), max_count, pad_even)


def brle_decode(brle):
    out = []
    v = False
    for c in brle:
        if c != int(c) or c < 0:
            return None
        out += [v] * int(c)
        v = not v
    return out


def _other(v):
    if isinstance(v, bool):
        return not v
    return 0 if v else 1


def rle_noncanonical(rle):
    """Same dense form, not merged: every run of length >= 2 is written as 1 + (c-1) with a zero-length run of
    another value in between; a zero-length run is put in front and a zero-length run at the end."""
    if not rle:
        return []
    out = [_other(rle[0]), 0]
    for i in range(0, len(rle), 2):
        v, c = rle[i], int(rle[i + 1])
        if c >= 2:
            out += [v, 1, _other(v), 0, v, c - 1]
        else:
            out += [v, c]
    out += [rle[-2], 0]
    return out


def brle_noncanonical(brle):
    """Same dense form: every count >= 2 is written 1, 0, count-1."""
    out = []
    for c in brle:
        c = int(c)
        if c >= 2:
            out += [1, 0, c - 1]
        else:
            out.append(c)
    return out
