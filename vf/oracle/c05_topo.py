"""C05 oracle: topology of a triangle soup by direct counting.

Plain python over tuples / dicts / Counter / union-find: no numpy, no trimesh.  `faces` is a list of
3-tuples of ints (any triples: repeated indices, repeated faces, non-manifold), `nv` the vertex count.

Definitions (each tied to the property text, a docstring or the documented mechanism):

* directed edges of face (a, b, c) are (a,b), (b,c), (c,a) in this order, faces in order
  ("stacked in triplets", geometry.faces_to_edges); a sorted edge is (min, max); a repeated index
  gives the loop edge (a, a), which is an edge like any other (it is in `edges`).
* two faces are adjacent through a sorted edge iff that edge occurs EXACTLY twice among all 3F
  directed edges and the two occurrences belong to different faces ("we discard edges which don't
  occur twice", "degenerate faces may appear in adjacency as the same value", graph.face_adjacency).
* a face is incident to a vertex iff the vertex is one of its three indices; the degree of a vertex
  is the NUMBER OF FACES it is included in (Trimesh.vertex_degree docstring), so a face counts once
  however often it repeats the index.
* watertight iff every sorted edge occurs exactly twice; winding consistent iff the two occurrences
  of every exactly-twice edge are reversed copies of each other (graph.is_watertight).
* euler = #referenced vertices - #distinct sorted edges + #faces (Trimesh.euler_number docstring/body).
"""

import math
from collections import Counter, OrderedDict


class UnionFind:
    def __init__(self, n):
        self.p = list(range(n))

    def find(self, a):
        p = self.p
        while p[a] != a:
            p[a] = p[p[a]]
            a = p[a]
        return a

    def union(self, a, b):
        ra, rb = self.find(a), self.find(b)
        if ra != rb:
            self.p[max(ra, rb)] = min(ra, rb)

    def partition(self, nodes=None):
        """-> set of frozensets"""
        groups = {}
        for i in range(len(self.p)) if nodes is None else nodes:
            groups.setdefault(self.find(i), []).append(i)
        return {frozenset(g) for g in groups.values()}


def partition_of(n, pairs, nodes=None):
    uf = UnionFind(n)
    for a, b in pairs:
        uf.union(a, b)
    return uf.partition(nodes)


def directed_edges(faces):
    edges, edges_face = [], []
    for i, (a, b, c) in enumerate(faces):
        edges += [(a, b), (b, c), (c, a)]
        edges_face += [i, i, i]
    return edges, edges_face


def sort_edge(e):
    return (e[0], e[1]) if e[0] <= e[1] else (e[1], e[0])


def edge_occurrences(faces):
    """sorted edge -> list of indices into the directed edge list (in order of occurrence)"""
    edges, _ = directed_edges(faces)
    occ = OrderedDict()
    for k, e in enumerate(edges):
        occ.setdefault(sort_edge(e), []).append(k)
    return occ


def unshared_vertex(face, edge):
    """the vertex of `face` which is not an end of `edge`, or -1 when there is not exactly one
    such position (graph.face_adjacency_unshared docstring)"""
    rest = [v for v in face if v != edge[0] and v != edge[1]]
    return rest[0] if len(rest) == 1 else -1


def adjacency(faces):
    """-> list of (f_lo, f_hi, sorted_edge, unshared_of_f_lo, unshared_of_f_hi), one per sorted edge
    which occurs exactly twice in two different faces"""
    _, edges_face = directed_edges(faces)
    out = []
    for e, ks in edge_occurrences(faces).items():
        if len(ks) != 2:
            continue
        f1, f2 = edges_face[ks[0]], edges_face[ks[1]]
        if f1 == f2:
            continue
        lo, hi = (f1, f2) if f1 < f2 else (f2, f1)
        out.append((lo, hi, e, unshared_vertex(faces[lo], e), unshared_vertex(faces[hi], e)))
    return out


def face_components(faces):
    return partition_of(len(faces), [(r[0], r[1]) for r in adjacency(faces)])


def vertex_components(faces, nv):
    edges, _ = directed_edges(faces)
    return partition_of(nv, edges)


def vertex_faces(faces, nv):
    """-> list (per vertex) of sorted lists of distinct incident faces"""
    out = [[] for _ in range(nv)]
    for i, f in enumerate(faces):
        for v in sorted(set(f)):
            out[v].append(i)
    return out


def vertex_multiplicity(faces, nv):
    """number of index slots referring to each vertex (NOT the degree when an index repeats)"""
    c = Counter(v for f in faces for v in f)
    return [c.get(v, 0) for v in range(nv)]


def vertex_neighbors(faces, nv, with_loops):
    out = [set() for _ in range(nv)]
    edges, _ = directed_edges(faces)
    for a, b in edges:
        if a != b or with_loops:
            out[a].add(b)
            out[b].add(a)
    return out


def referenced(faces, nv):
    used = {v for f in faces for v in f}
    return [v in used for v in range(nv)]


def euler_number(faces, nv):
    return sum(referenced(faces, nv)) - len(edge_occurrences(faces)) + len(faces)


def watertight(faces):
    return all(len(ks) == 2 for ks in edge_occurrences(faces).values())


def winding_consistent(faces):
    edges, _ = directed_edges(faces)
    for _e, ks in edge_occurrences(faces).items():
        if len(ks) == 2:
            a, b = edges[ks[0]], edges[ks[1]]
            if a != (b[1], b[0]):
                return False
    return True


def repeated_vertices(faces):
    """vertices which occur more than once inside one face"""
    return {v for f in faces for v in f if list(f).count(v) > 1}


def input_class(faces, nv):
    """coarse class of a face array for histograms and narrow signatures"""
    occ = edge_occurrences(faces)
    if not faces:
        return "empty"
    if repeated_vertices(faces):
        return "repeated_index"
    if any(len(k) >= 3 for k in occ.values()):
        return "edge_count>=3"
    if len(set(tuple(sorted(f)) for f in faces)) < len(faces):
        return "duplicate_face"
    if not all(referenced(faces, nv)):
        return "unreferenced_vertex"
    if watertight(faces):
        return "closed"
    return "open"


def closed_manifold(faces, nv):
    """every vertex referenced, no repeated index, every sorted edge in exactly two faces and the
    link of every vertex a single cycle"""
    if not faces or repeated_vertices(faces) or not all(referenced(faces, nv)) or not watertight(faces):
        return False
    link = [[] for _ in range(nv)]
    for a, b, c in faces:
        link[a].append((b, c))
        link[b].append((c, a))
        link[c].append((a, b))
    for v in range(nv):
        deg = Counter(x for e in link[v] for x in e)
        if any(d != 2 for d in deg.values()):
            return False
        nodes = sorted(deg)
        index = {x: i for i, x in enumerate(nodes)}
        if len(partition_of(len(nodes), [(index[a], index[b]) for a, b in link[v]])) != 1:
            return False
    return True


def min_angle(faces, pos):
    """smallest interior angle over all faces (atan2 form, stable for thin triangles)"""
    best = math.pi
    for f in faces:
        for k in range(3):
            o, p, q = pos[f[k]], pos[f[(k + 1) % 3]], pos[f[(k + 2) % 3]]
            u = [p[i] - o[i] for i in range(3)]
            w = [q[i] - o[i] for i in range(3)]
            cr = (u[1] * w[2] - u[2] * w[1], u[2] * w[0] - u[0] * w[2], u[0] * w[1] - u[1] * w[0])
            best = min(best, math.atan2(math.sqrt(sum(c * c for c in cr)), sum(u[i] * w[i] for i in range(3))))
    return best


def face_angles(faces, pos):
    """interior angle at each of the three index slots of every face (atan2 form); a face which
    repeats an index is degenerate and gets None"""
    out = []
    for f in faces:
        if len(set(f)) < 3:
            out.append(None)
            continue
        row = []
        for k in range(3):
            o, p, q = pos[f[k]], pos[f[(k + 1) % 3]], pos[f[(k + 2) % 3]]
            u = [p[i] - o[i] for i in range(3)]
            w = [q[i] - o[i] for i in range(3)]
            cr = (u[1] * w[2] - u[2] * w[1], u[2] * w[0] - u[0] * w[2], u[0] * w[1] - u[1] * w[0])
            row.append(math.atan2(math.sqrt(sum(c * c for c in cr)), sum(u[i] * w[i] for i in range(3))))
        out.append(tuple(row))
    return out


def glue(piece_a, piece_b, shared, reverse):
    """two face lists on their own vertex sets 0..; identify the first `shared` vertices of face 0 of
    piece_b with those of face 0 of piece_a (in reversed order if `reverse`), all other vertices of
    piece_b become new.  shared = 0: disjoint, 1: pinch vertex, 2: common edge, 3: common triangle.
    -> (faces, vertex count)"""
    na = 1 + max(v for f in piece_a for v in f)
    nb = 1 + max(v for f in piece_b for v in f)
    target = list(piece_a[0][:shared])
    if reverse:
        target.reverse()
    mapping = dict(zip(piece_b[0][:shared], target))
    nxt = na
    for v in range(nb):
        if v not in mapping:
            mapping[v] = nxt
            nxt += 1
    return [tuple(f) for f in piece_a] + [tuple(mapping[v] for v in f) for f in piece_b], nxt
