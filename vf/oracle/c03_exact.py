"""C03 oracle: exact mass integrals of a closed oriented triangle surface.

Derivation (independent of the Eberly projection formulas used by trimesh): by the divergence theorem
with F = r/3 the solid bounded by a closed oriented surface is the signed sum of the tetrahedra
(0, a, b, c) over its faces (a, b, c).  With det = a . (b x c), S = a + b + c:

    V            = sum det / 6
    int x_i      = sum det * S_i / 24
    int x_i x_j  = sum det * (sum_p p_i p_j + S_i S_j) / 120          (p over a, b, c)

This holds for every closed oriented surface (any genus, several bodies, self-intersecting, flat).
All arithmetic is exact: float64 inputs are converted to rationals without rounding
(`float.as_integer_ratio`), the per-face sums run over a common power-of-two denominator in python
integers and the ten integrals are returned as `fractions.Fraction`.  `integrals_fraction` is the
same computation written directly with Fraction objects (slow, used to cross-check the fast path).

The module also provides
  * integer batch evaluation of the same formulas for many small integer tetrahedra / pillows (int64),
  * forward-error majorants for the float comparison (functions of |coordinates| and |edges| only).
"""

import math
from fractions import Fraction

import numpy as np

EPS = float(np.finfo(np.float64).eps)  # 2**-52

# ----------------------------------------------------------------------------- exact conversion


def common_ints(values):
    """values: iterable of python floats/ints -> (list of python ints n_i, k) with value_i == n_i / 2**k exactly."""
    ratios = []
    kmax = 0
    for v in values:
        if isinstance(v, int):
            n, d = v, 1
        else:
            n, d = float(v).as_integer_ratio()
        ratios.append((n, d))
        if d > 1:
            kmax = max(kmax, d.bit_length() - 1)  # d is a power of two
    out = []
    for n, d in ratios:
        out.append(n << (kmax - (d.bit_length() - 1)))
    return out, kmax


class Exact:
    """The ten exact integrals of a solid and everything derived from them (all Fractions).
    V : volume, m1[i] : int x_i, m2[i][j] : int x_i x_j   (density 1)."""

    def __init__(self, V, m1, m2):
        self.V = Fraction(V)
        self.m1 = [Fraction(x) for x in m1]
        self.m2 = [[Fraction(x) for x in row] for row in m2]

    # -- first moments
    def center_mass(self):
        if self.V == 0:
            return None
        return [x / self.V for x in self.m1]

    # -- second moments / inertia
    def second_moment_about(self, t):
        """J_t[i][j] = int (x_i - t_i)(x_j - t_j) dV"""
        t = [Fraction(x) for x in t]
        return [
            [self.m2[i][j] - t[i] * self.m1[j] - t[j] * self.m1[i] + t[i] * t[j] * self.V for j in range(3)]
            for i in range(3)
        ]

    @staticmethod
    def _inertia_from_second(J):
        tr = J[0][0] + J[1][1] + J[2][2]
        return [[(tr if i == j else 0) - J[i][j] for j in range(3)] for i in range(3)]

    def inertia_about(self, t):
        """inertia tensor (density 1) of the solid about the point t, axes parallel to the world axes"""
        return self._inertia_from_second(self.second_moment_about(t))

    def inertia_origin(self):
        return self._inertia_from_second(self.m2)

    def inertia_cm(self):
        c = self.center_mass()
        return None if c is None else self.inertia_about(c)

    def inertia_centre_convention(self, c):
        """Tensor that satisfies the parallel-axis law *with c taken as the centre of mass*:
        I_origin = I + V * M(c)   (M(a) = |a|^2 1 - a a^T).  For c = true centre of mass this is the
        inertia about the centre of mass."""
        c = [Fraction(x) for x in c]
        I0 = self.inertia_origin()
        M = shift_matrix(c)
        return [[I0[i][j] - self.V * M[i][j] for j in range(3)] for i in range(3)]


def shift_matrix(a):
    a = [Fraction(x) for x in a]
    n2 = a[0] * a[0] + a[1] * a[1] + a[2] * a[2]
    return [[(n2 if i == j else 0) - a[i] * a[j] for j in range(3)] for i in range(3)]


def rotate_into_frame(I, R):
    """R^T I R with exact entries (R: 3x3 of floats taken exactly; not assumed orthogonal)."""
    R = [[Fraction(x) for x in row] for row in R]
    return [
        [sum(R[i][k] * I[i][j] * R[j][l] for i in range(3) for j in range(3)) for l in range(3)]
        for k in range(3)
    ]


def rotate_body(I, R):
    """R I R^T exactly."""
    R = [[Fraction(x) for x in row] for row in R]
    return [
        [sum(R[k][i] * I[i][j] * R[l][j] for i in range(3) for j in range(3)) for l in range(3)]
        for k in range(3)
    ]


def integrals(triangles):
    """triangles: (n,3,3) nested list / array of float64 or ints -> Exact (fast path, python ints)."""
    T = np.asarray(triangles)
    if T.dtype.kind == "f":
        flat = [float(x) for x in T.reshape(-1)]
    else:
        flat = [int(x) for x in T.reshape(-1)]
    ints, k = common_ints(flat)
    n = len(ints) // 9
    N0 = 0
    N1 = [0, 0, 0]
    N2 = [[0, 0, 0], [0, 0, 0], [0, 0, 0]]
    for f in range(n):
        ax, ay, az, bx, by, bz, cx, cy, cz = ints[9 * f : 9 * f + 9]
        det = ax * (by * cz - bz * cy) - ay * (bx * cz - bz * cx) + az * (bx * cy - by * cx)
        if det == 0:
            continue
        S = (ax + bx + cx, ay + by + cy, az + bz + cz)
        a, b, c = (ax, ay, az), (bx, by, bz), (cx, cy, cz)
        N0 += det
        for i in range(3):
            N1[i] += det * S[i]
            for j in range(i, 3):
                N2[i][j] += det * (a[i] * a[j] + b[i] * b[j] + c[i] * c[j] + S[i] * S[j])
    for i in range(3):
        for j in range(i):
            N2[i][j] = N2[j][i]
    d3, d4, d5 = 1 << (3 * k), 1 << (4 * k), 1 << (5 * k)
    return Exact(
        Fraction(N0, 6 * d3),
        [Fraction(x, 24 * d4) for x in N1],
        [[Fraction(x, 120 * d5) for x in row] for row in N2],
    )


def integrals_fraction(triangles):
    """The same formulas written directly with Fraction objects (reference for the fast path)."""
    V = Fraction(0)
    m1 = [Fraction(0)] * 3
    m2 = [[Fraction(0)] * 3 for _ in range(3)]
    for tri in np.asarray(triangles).tolist():
        a, b, c = [[Fraction(x) for x in p] for p in tri]
        det = (
            a[0] * (b[1] * c[2] - b[2] * c[1])
            - a[1] * (b[0] * c[2] - b[2] * c[0])
            + a[2] * (b[0] * c[1] - b[1] * c[0])
        )
        S = [a[i] + b[i] + c[i] for i in range(3)]
        V += det / 6
        m1 = [m1[i] + det * S[i] / 24 for i in range(3)]
        m2 = [
            [m2[i][j] + det * (a[i] * a[j] + b[i] * b[j] + c[i] * c[j] + S[i] * S[j]) / 120 for j in range(3)]
            for i in range(3)
        ]
    return Exact(V, m1, m2)


def cross_sq_exact(triangles):
    """per face: exact squared norm of (b-a) x (c-a) as Fraction, and the exact cross vector"""
    T = np.asarray(triangles)
    flat = [float(x) for x in T.reshape(-1)] if T.dtype.kind == "f" else [int(x) for x in T.reshape(-1)]
    ints, k = common_ints(flat)
    d2 = 1 << (2 * k)
    out = []
    for f in range(len(ints) // 9):
        ax, ay, az, bx, by, bz, cx, cy, cz = ints[9 * f : 9 * f + 9]
        ux, uy, uz = bx - ax, by - ay, bz - az
        vx, vy, vz = cx - ax, cy - ay, cz - az
        n = (uy * vz - uz * vy, uz * vx - ux * vz, ux * vy - uy * vx)
        out.append((Fraction(n[0] * n[0] + n[1] * n[1] + n[2] * n[2], d2 * d2), [Fraction(x, d2) for x in n]))
    return out


def area_exact(triangles):
    """sum over faces of 1/2 sqrt(exact |cross|^2); each sqrt correctly rounded from the correctly rounded
    radicand (<= 1 ulp per face), faces added with math.fsum. Returns (total, per-face list)."""
    per = [0.5 * math.sqrt(float(n2)) for n2, _ in cross_sq_exact(triangles)]
    return math.fsum(per), per


# ----------------------------------------------------------------------------- forward-error majorants


def majorants(triangles):
    """Upper bounds, from |coordinates| and |edge components| only, on the sum over faces of the absolute
    values of all monomials of any per-face surface-integral expression of the ten integrals in which the face
    enters through a cross product of two edge vectors (error of an edge difference is relative to the edge,
    because a floating-point subtraction is correctly rounded).

        r_i = max_p |p_i| per face,  e_i = max over the three edges of |edge_i|,  |n_i| <= 2 e_j e_l

    A[0]      volume          sum 2 e_y e_z * 3 r_x / 6
    A[1..3]   int x_i         sum 2 e_j e_l * 6 r_i^2 / 24
    A[4..6]   int x_i^2       sum 2 e_j e_l * 10 r_i^3 / 60
    A[7..9]   int xy, yz, zx  sum 2 e_j e_l * 30 r_i^2 r_{i+1} / 120      (i = 0, 1, 2)
    area      sum 1/2 |(2 e_y e_z, 2 e_z e_x, 2 e_x e_y)|
    """
    T = np.asarray(triangles, dtype=np.float64)
    r = np.abs(T).max(axis=1)
    E = np.abs(np.stack([T[:, 1] - T[:, 0], T[:, 2] - T[:, 1], T[:, 0] - T[:, 2]], axis=1)).max(axis=1)
    n = 2.0 * np.column_stack((E[:, 1] * E[:, 2], E[:, 2] * E[:, 0], E[:, 0] * E[:, 1]))
    A = np.zeros(10)
    A[0] = (n[:, 0] * 3.0 * r[:, 0]).sum() / 6.0
    A[1:4] = (n * 6.0 * r**2).sum(axis=0) / 24.0
    A[4:7] = (n * 10.0 * r**3).sum(axis=0) / 60.0
    for i in range(3):
        j = (i + 1) % 3
        A[7 + i] = (n[:, i] * 30.0 * r[:, i] ** 2 * r[:, j]).sum() / 120.0
    area = 0.5 * np.sqrt((n**2).sum(axis=1))
    return A, float(area.sum()), n, area


def exact_regime(triangles):
    """True when every intermediate of a straight-line evaluation of the degree<=5 integer polynomials is an
    integer below 2**53 (so float64 evaluation is exact up to the final division by 6/24/60/120):
    integer coordinates and  240 * m^5 * n_faces < 2**53  with m = max |coordinate| (|n_i| <= 8 m^2,
    at most 30 monomials of degree 3 per face)."""
    T = np.asarray(triangles, dtype=np.float64)
    if T.size == 0:
        return True
    if not np.all(T == np.round(T)):
        return False
    m = float(np.abs(T).max())
    return 240.0 * m**5 * len(T) < 2.0**53


# ----------------------------------------------------------------------------- integer batches (grid)

TET_FACES = np.array([[0, 2, 1], [0, 1, 3], [1, 2, 3], [0, 3, 2]], dtype=np.int64)
PILLOW_FACES = np.array([[0, 1, 2], [0, 2, 1]], dtype=np.int64)


def batch_integer_numerators(tri):
    """tri: (m, f, 3, 3) int64 (m closed surfaces of f faces each, small integer coordinates).
    Returns exact integers N0 (m,), N1 (m,3), N2 (m,3,3) with V = N0/6, int x_i = N1/24, int x_i x_j = N2/120."""
    tri = np.asarray(tri, dtype=np.int64)
    a, b, c = tri[:, :, 0, :], tri[:, :, 1, :], tri[:, :, 2, :]
    det = (
        a[..., 0] * (b[..., 1] * c[..., 2] - b[..., 2] * c[..., 1])
        - a[..., 1] * (b[..., 0] * c[..., 2] - b[..., 2] * c[..., 0])
        + a[..., 2] * (b[..., 0] * c[..., 1] - b[..., 1] * c[..., 0])
    )
    S = a + b + c
    N0 = det.sum(axis=1)
    N1 = (det[..., None] * S).sum(axis=1)
    P = (
        a[..., :, None] * a[..., None, :]
        + b[..., :, None] * b[..., None, :]
        + c[..., :, None] * c[..., None, :]
        + S[..., :, None] * S[..., None, :]
    )
    N2 = (det[..., None, None] * P).sum(axis=1)
    return N0, N1, N2


def grid_vertices(k, indices, nverts):
    """indices (m,) -> (m, nverts, 3) int64: digits of the index in base k, most significant first."""
    idx = np.asarray(indices, dtype=np.int64)
    nd = 3 * nverts
    digits = np.zeros((len(idx), nd), dtype=np.int64)
    rem = idx.copy()
    for p in range(nd - 1, -1, -1):
        digits[:, p] = rem % k
        rem //= k
    return digits.reshape((len(idx), nverts, 3))
