"""Reference model for C11 (plane sections and slices), written from the definitions and independent of
trimesh.intersections: exact/tolerance sign classification, per-triangle plane intersection by linear
interpolation, Sutherland-Hodgman clipping of polygons by a half space, point-triangle distance, signed
volume / area from the definitions, combinatorial closedness, convexity."""

import math
from collections import Counter

import numpy as np

EPS = float(np.finfo(np.float64).eps)
THR = 1e-8  # documented tol.merge: |dot| <= THR is "on the plane" for every function under test


# --------------------------------------------------------------------------------------------- signs


def dots_of(V, origin, normal):
    """dot products exactly as documented: (v - origin) . normal, un-normalised"""
    V = np.asarray(V, dtype=np.float64)
    return (V - np.asarray(origin, dtype=np.float64)) @ np.asarray(normal, dtype=np.float64)


def exact_int_dots(V, origin, normal):
    """(2v - 2o).n in python integers; V, 2*origin and normal must be integer valued. Returns list of ints (doubled dots)."""
    V2 = np.round(np.asarray(V) * 2).astype(object)
    o2 = [int(round(2 * float(x))) for x in origin]
    n = [int(round(float(x))) for x in normal]
    return [int((v[0] - o2[0]) * n[0] + (v[1] - o2[1]) * n[1] + (v[2] - o2[2]) * n[2]) for v in V2.tolist()]


def classify(dots, thr=THR, band=0.1):
    """-> signs (int8 in -1,0,1), ambiguous (any |dot| within band*thr of thr), snapped (any 0<|dot|<=thr)"""
    d = np.asarray(dots, dtype=np.float64)
    s = np.zeros(len(d), dtype=np.int8)
    s[d < -thr] = -1
    s[d > thr] = 1
    a = np.abs(d)
    amb = bool(((a > thr * (1 - band)) & (a < thr * (1 + band))).any())
    snapped = bool(((a > 0) & (a <= thr)).any())
    return s, amb, snapped


def case_codes(sf):
    """triangle_cases code of each row of per-face signs (documented table): 14 + 8 s0 + 4 s1 + 2 s2 on sorted signs"""
    ss = np.sort(np.asarray(sf, dtype=np.int64), axis=1)
    return 14 + 8 * ss[:, 0] + 4 * ss[:, 1] + 2 * ss[:, 2]


def pattern_labels(sf):
    ch = {-1: "-", 0: "0", 1: "+"}
    return ["".join(ch[int(x)] for x in row) for row in np.asarray(sf)]


# --------------------------------------------------------------------------------------------- sections


def straddle_segments(V, F, dots, signs):
    """Exact intersection segment of every triangle with vertices strictly on both sides of the plane.
    -> dict face -> (P (2,3), cond (2,)) where cond is 1/sin(angle between the cut edge and the plane) in units
    such that the positional uncertainty of the point is ~ eps*scale*cond (cond = 0 for a vertex on the plane);
    `nlen` normalises."""
    V = np.asarray(V, dtype=np.float64)
    out = {}
    sf = signs[F]
    mn = sf.min(axis=1)
    mx = sf.max(axis=1)
    for f in np.nonzero((mn < 0) & (mx > 0))[0]:
        idx = F[f]
        pts, cond = [], []
        for k in range(3):
            a, b = int(idx[k]), int(idx[(k + 1) % 3])
            sa, sb = int(signs[a]), int(signs[b])
            if sa == 0:
                pts.append(V[a].copy())
                cond.append(0.0)
            if sa * sb < 0:
                da, db = float(dots[a]), float(dots[b])
                t = da / (da - db)
                pts.append(V[a] + t * (V[b] - V[a]))
                L = float(np.linalg.norm(V[b] - V[a]))
                cond.append(L / abs(da - db))  # times |n| -> 1/sin(theta)
        # a straddling triangle has exactly two such points
        out[int(f)] = (np.array(pts), np.array(cond))
    return out


def edges_in_plane(F, signs):
    sf = signs[F]
    z = sf == 0
    return bool(((z[:, 0] & z[:, 1]) | (z[:, 1] & z[:, 2]) | (z[:, 2] & z[:, 0])).any())


# --------------------------------------------------------------------------------------------- distances


def _seg_dist(P, A, B):
    AB = B - A
    den = (AB * AB).sum(axis=1)
    t = ((P - A) * AB).sum(axis=1) / np.where(den > 0, den, 1.0)
    t = np.clip(np.where(den > 0, t, 0.0), 0.0, 1.0)
    return np.linalg.norm(P - (A + t[:, None] * AB), axis=1)


def point_tri_dist(P, A, B, C):
    """distance of P[i] to the closed triangle A[i]B[i]C[i] (all (k,3)); degenerate triangles -> their edges"""
    P, A, B, C = (np.asarray(x, dtype=np.float64).reshape((-1, 3)) for x in (P, A, B, C))
    d = np.minimum(np.minimum(_seg_dist(P, A, B), _seg_dist(P, B, C)), _seg_dist(P, C, A))
    N = np.cross(B - A, C - A)
    nn = (N * N).sum(axis=1)
    # a (nearly) collinear triangle has no usable normal (N is rounding noise): its closed point set is its edges
    e2 = np.maximum(np.maximum(((B - A) ** 2).sum(axis=1), ((C - B) ** 2).sum(axis=1)), ((A - C) ** 2).sum(axis=1))
    ok = nn > (1e-10 * e2) ** 2
    nn1 = np.where(ok, nn, 1.0)
    w = P - A
    gamma = (np.cross(B - A, w) * N).sum(axis=1) / nn1
    beta = (np.cross(w, C - A) * N).sum(axis=1) / nn1
    alpha = 1.0 - gamma - beta
    inside = ok & (alpha >= 0) & (beta >= 0) & (gamma >= 0)
    dplane = np.abs((w * N).sum(axis=1)) / np.sqrt(nn1)
    return np.where(inside, np.minimum(dplane, d), d)


def dist_to_mesh(P, V, F, chunk=200000):
    """min over all triangles of the distance of each P (brute force, exhaustive)"""
    P = np.asarray(P, dtype=np.float64).reshape((-1, 3))
    T = np.asarray(V, dtype=np.float64)[np.asarray(F)]
    nf = len(T)
    out = np.full(len(P), np.inf)
    if nf == 0 or len(P) == 0:
        return out
    step = max(1, chunk // nf)
    for i in range(0, len(P), step):
        p = P[i : i + step]
        k = len(p)
        PP = np.repeat(p, nf, axis=0)
        d = point_tri_dist(PP, np.tile(T[:, 0], (k, 1)), np.tile(T[:, 1], (k, 1)), np.tile(T[:, 2], (k, 1)))
        out[i : i + step] = d.reshape((k, nf)).min(axis=1)
    return out


def triangles_inside_source(OT, V, F, tol):
    """for every output triangle OT[i] (3,3): is there ONE source triangle that contains all three corners
    (distance <= tol)?  -> (ok (n,) bool, worst (n,) float = min over sources of max corner distance)"""
    OT = np.asarray(OT, dtype=np.float64).reshape((-1, 3, 3))
    T = np.asarray(V, dtype=np.float64)[np.asarray(F)]
    n, nf = len(OT), len(T)
    worst = np.full(n, np.inf)
    if n == 0 or nf == 0:
        return worst <= tol, worst
    step = max(1, 60000 // nf)
    for i in range(0, n, step):
        o = OT[i : i + step]
        k = len(o)
        A = np.tile(T[:, 0], (k, 1))
        B = np.tile(T[:, 1], (k, 1))
        C = np.tile(T[:, 2], (k, 1))
        m = np.zeros(k * nf)
        for c in range(3):
            m = np.maximum(m, point_tri_dist(np.repeat(o[:, c], nf, axis=0), A, B, C))
        worst[i : i + step] = m.reshape((k, nf)).min(axis=1)
    return worst <= tol, worst


# --------------------------------------------------------------------------------------------- measures


def area_of(V, F):
    T = np.asarray(V, dtype=np.float64)[np.asarray(F, dtype=np.int64).reshape((-1, 3))]
    if len(T) == 0:
        return 0.0
    return float(math.fsum((0.5 * np.linalg.norm(np.cross(T[:, 1] - T[:, 0], T[:, 2] - T[:, 0]), axis=1)).tolist()))


def vector_area_of(V, F):
    T = np.asarray(V, dtype=np.float64)[np.asarray(F, dtype=np.int64).reshape((-1, 3))]
    if len(T) == 0:
        return np.zeros(3)
    return 0.5 * np.cross(T[:, 1] - T[:, 0], T[:, 2] - T[:, 0]).sum(axis=0)


def volume_of(V, F, ref=None):
    """signed volume: sum of signed tetrahedra from a reference point (divergence theorem)"""
    V = np.asarray(V, dtype=np.float64)
    F = np.asarray(F, dtype=np.int64).reshape((-1, 3))
    if len(F) == 0:
        return 0.0
    if ref is None:
        ref = V[np.unique(F)].mean(axis=0)
    T = V[F] - ref
    return float(math.fsum((np.einsum("ij,ij->i", T[:, 0], np.cross(T[:, 1], T[:, 2])) / 6.0).tolist()))


def poly_vector_area(P):
    P = np.asarray(P, dtype=np.float64)
    if len(P) < 3:
        return np.zeros(3)
    Q = P - P[0]
    return 0.5 * np.cross(Q[1:-1], Q[2:]).sum(axis=0)


def closed_oriented(F):
    """every directed edge occurs once and its reverse once"""
    F = np.asarray(F, dtype=np.int64).reshape((-1, 3))
    if len(F) == 0:
        return False
    c = Counter()
    for a, b, d in F.tolist():
        c[(a, b)] += 1
        c[(b, d)] += 1
        c[(d, a)] += 1
    for (a, b), k in c.items():
        if k != 1 or c.get((b, a), 0) != 1 or a == b:
            return False
    return True


def boundary_edges(F):
    F = np.asarray(F, dtype=np.int64).reshape((-1, 3))
    c = Counter()
    for a, b, d in F.tolist():
        for e in ((a, b), (b, d), (d, a)):
            c[(min(e), max(e))] += 1
    return {e: k for e, k in c.items() if k != 2}


def n_components(F, nv):
    parent = list(range(nv))

    def find(x):
        while parent[x] != x:
            parent[x] = parent[parent[x]]
            x = parent[x]
        return x

    for a, b, c in np.asarray(F).tolist():
        ra, rb, rc = find(a), find(b), find(c)
        parent[rb] = ra
        parent[find(rc)] = ra
    return len({find(int(i)) for i in np.unique(F)})


def weakly_convex(V, F, integer=False):
    """all vertices on or behind every face plane (closed oriented single component assumed by the caller)"""
    V = np.asarray(V, dtype=np.float64)
    T = V[F]
    N = np.cross(T[:, 1] - T[:, 0], T[:, 2] - T[:, 0])
    used = V[np.unique(F)]
    h = (used[None, :, :] - T[:, 0][:, None, :]) @ N[:, :, None]
    h = h[:, :, 0]
    if integer:
        return bool((h <= 0).all()) and bool((np.abs(N).sum(axis=1) > 0).all())
    sc = np.abs(used - used.mean(axis=0)).max()
    nl = np.linalg.norm(N, axis=1)
    if (nl <= 1e-12 * sc * sc).any():
        return False
    return bool((h <= 1e-10 * sc * nl[:, None]).all())


# --------------------------------------------------------------------------------------------- clipping


def clip_poly(P, d, s):
    """Sutherland-Hodgman against {dot >= 0}; vertices with s == 0 are on the boundary and kept as they are."""
    out = []
    k = len(P)
    for i in range(k):
        j = (i + 1) % k
        if s[i] >= 0:
            out.append(P[i])
        if s[i] * s[j] < 0:
            t = d[i] / (d[i] - d[j])
            out.append(P[i] + t * (P[j] - P[i]))
    return np.array(out).reshape((-1, 3))


class Clip:
    """positive-side part of a list of polygons under successive half spaces, with the documented conventions:
    |dot| <= THR is on the plane; a polygon lying in the plane is kept iff its normal opposes the slicing normal."""

    def __init__(self, polys, scale=None):
        self.polys = [np.asarray(p, dtype=np.float64) for p in polys]
        self.scale = float(scale) if scale is not None else max([float(np.abs(p).max()) for p in self.polys if len(p)] + [1e-300])
        self.ambiguous = False
        # a vertex with 0 < |dot| <= THR is "on the plane" by the documented tolerance although it is not: the part of
        # its polygon within that band of the plane (area <= area * 4 delta / range of dots) may go to either side
        self.snap_area = 0.0
        self.snap_dist = 0.0  # largest such distance
        # a polygon that is cut (vertices strictly on both sides) also has such a vertex: thin region of slice_faces_plane
        self.snapped_cut = False
        # a vertex strictly off the plane but closer than 100 tol.merge: features below the documented resolution
        self.gray = False
        self.stats = Counter()

    def cut(self, origin, normal):
        origin = np.asarray(origin, dtype=np.float64)
        normal = np.asarray(normal, dtype=np.float64)
        keep = []
        for P in self.polys:
            d = (P - origin) @ normal
            a = np.abs(d)
            if ((a > THR * 0.9) & (a < THR * 1.1)).any():
                self.ambiguous = True
            if ((a >= THR * 1.1) & (a <= 100 * THR * float(np.linalg.norm(normal)))).any():
                self.gray = True
            s = np.zeros(len(P), dtype=np.int8)
            s[d < -THR] = -1
            s[d > THR] = 1
            sn = (a > 0) & (a <= THR)
            if sn.any():
                delta = float(a[sn].max())
                rng = float(d.max() - d.min())
                self.snap_area += float(np.linalg.norm(poly_vector_area(P))) * (min(1.0, 4.0 * delta / rng) if rng > 4.0 * delta else 1.0)
                self.snap_dist = max(self.snap_dist, delta / float(np.linalg.norm(normal)))
                if (d > THR).any() and (d < -THR).any():
                    # slice_faces_plane intersects the line of an edge that ends in such a vertex instead of taking the
                    # vertex: the class is entered when that point is measurably (> 1e-11 scale) away from the vertex
                    k = len(P)
                    for i in np.nonzero(sn)[0]:
                        for j in ((i - 1) % k, (i + 1) % k):
                            if a[j] > THR and a[i] * float(np.linalg.norm(P[j] - P[i])) > 1e-11 * self.scale * abs(d[j] - d[i]):
                                self.snapped_cut = True
            mn, mx = s.min(), s.max()
            if mn == 0 and mx == 0:
                nv = poly_vector_area(P)
                if float(nv @ normal) < 0 and np.abs(nv).max() > 0:
                    keep.append(P)
                    self.stats["coplanar_kept"] += 1
                else:
                    self.stats["coplanar_dropped"] += 1
            elif mn >= 0:
                keep.append(P)
                self.stats["inside"] += 1
            elif mx <= 0:
                self.stats["outside"] += 1
            else:
                Q = clip_poly(P, d, s)
                nin = int((s > 0).sum())
                self.stats["cut_%d_in_%d_on" % (nin, int((s == 0).sum()))] += 1
                if len(Q) >= 3:
                    keep.append(Q)
        self.polys = keep
        return self

    def area(self):
        return float(math.fsum(float(np.linalg.norm(poly_area_vec_sum(P))) for P in self.polys))

    def vector_area(self):
        if not self.polys:
            return np.zeros(3)
        return np.sum([poly_vector_area(P) for P in self.polys], axis=0)


def poly_area_vec_sum(P):
    # a clipped piece of a planar polygon is planar and convex: |vector area| is its area
    return poly_vector_area(P)


def unit(v):
    v = np.asarray(v, dtype=np.float64)
    return v / np.linalg.norm(v)


def cap_boundary_pinched(polys, origin, normal, scale):
    """The boundary that a cap has to close = edges of the kept polygons lying in the plane and used an odd number of
    times. Returns True when more than two such edges meet in one point (section loops touching in a point, a
    coplanar region touching the section loop): the cap region is then not a union of disjoint simple polygons."""
    from scipy.spatial import cKDTree

    origin = np.asarray(origin, dtype=np.float64)
    normal = np.asarray(normal, dtype=np.float64)
    tol_on = THR + 1e-11 * scale * float(np.linalg.norm(normal))
    A, B = [], []
    for P in polys:
        on = np.abs((P - origin) @ normal) <= tol_on
        k = len(P)
        for i in range(k):
            j = (i + 1) % k
            if on[i] and on[j]:
                A.append(P[i])
                B.append(P[j])
    if not A:
        return False
    pts = np.vstack((np.array(A), np.array(B)))
    parent = list(range(len(pts)))

    def find(x):
        while parent[x] != x:
            parent[x] = parent[parent[x]]
            x = parent[x]
        return x

    for i, j in cKDTree(pts).query_pairs(1e-9 * scale + 2 * THR):
        parent[find(i)] = find(j)
    m = len(A)
    cnt = Counter()
    for i in range(m):
        a, b = find(i), find(m + i)
        if a != b:
            cnt[(min(a, b), max(a, b))] += 1
    deg = Counter()
    for (a, b), c in cnt.items():
        if c % 2 == 1:
            deg[a] += 1
            deg[b] += 1
    return any(v > 2 for v in deg.values())


def winding_number(P, V, F):
    """generalised winding number of the closed oriented surface (V, F) at the points P (k,3): sum of the signed
    solid angles of all triangles (van Oosterom & Strackee) / 4 pi.  1 inside a solid, 0 outside."""
    P = np.asarray(P, dtype=np.float64).reshape((-1, 3))
    T = np.asarray(V, dtype=np.float64)[np.asarray(F)]
    a = T[None, :, 0, :] - P[:, None, :]
    b = T[None, :, 1, :] - P[:, None, :]
    c = T[None, :, 2, :] - P[:, None, :]
    la, lb, lc = np.linalg.norm(a, axis=2), np.linalg.norm(b, axis=2), np.linalg.norm(c, axis=2)
    num = np.einsum("ijk,ijk->ij", a, np.cross(b, c))
    den = la * lb * lc + np.einsum("ijk,ijk->ij", a, b) * lc + np.einsum("ijk,ijk->ij", b, c) * la + np.einsum("ijk,ijk->ij", c, a) * lb
    return (2.0 * np.arctan2(num, den)).sum(axis=1) / (4.0 * np.pi)


def edge_imbalance(F):
    """closed and consistently wound in the homological sense: every edge is used as often in one direction as in the
    other (2 faces per edge for a manifold; 4 where two parts of a solid touch along an edge, which a plane cut through
    a re-entrant edge legitimately produces).  -> dict edge -> (n forward, n backward) of the edges that are not"""
    F = np.asarray(F, dtype=np.int64).reshape((-1, 3))
    c = Counter()
    for a, b, d in F.tolist():
        c[(a, b)] += 1
        c[(b, d)] += 1
        c[(d, a)] += 1
    bad = {}
    for (a, b), k in c.items():
        if a != b and c.get((b, a), 0) != k:
            bad[(min(a, b), max(a, b))] = (c.get((min(a, b), max(a, b)), 0), c.get((max(a, b), min(a, b)), 0))
    return bad


def self_pierced(V, F, E=None):
    """does an edge of the mesh pass through the interior of a face that shares no vertex with it?  Two triangles of
    an embedded surface never do that; exhaustive over all (edge, face) pairs, float64 with a relative margin."""
    V = np.asarray(V, dtype=np.float64)
    F = np.asarray(F, dtype=np.int64).reshape((-1, 3))
    if E is None:
        e = np.sort(np.vstack((F[:, [0, 1]], F[:, [1, 2]], F[:, [2, 0]])), axis=1)
        E = np.unique(e, axis=0)
    if len(F) == 0 or len(E) == 0:
        return False
    a, b, c = V[F[:, 0]], V[F[:, 1]], V[F[:, 2]]
    n = np.cross(b - a, c - a)
    nn = (n * n).sum(axis=1)
    ok = nn > 0
    step = max(1, 200000 // len(F))
    for i in range(0, len(E), step):
        e = E[i : i + step]
        p, q = V[e[:, 0]], V[e[:, 1]]
        dp = np.einsum("ijk,jk->ij", p[:, None, :] - a[None, :, :], n)
        dq = np.einsum("ijk,jk->ij", q[:, None, :] - a[None, :, :], n)
        shares = (e[:, 0][:, None, None] == F[None, :, :]).any(axis=2) | (e[:, 1][:, None, None] == F[None, :, :]).any(axis=2)
        cand = (dp * dq < 0) & ~shares & ok[None, :]
        if not cand.any():
            continue
        ii, jj = np.nonzero(cand)
        t = dp[ii, jj] / (dp[ii, jj] - dq[ii, jj])
        x = p[ii] + t[:, None] * (q[ii] - p[ii])
        inside = np.ones(len(ii), dtype=bool)
        for u, v in ((a, b), (b, c), (c, a)):
            w = np.einsum("ij,ij->i", np.cross(v[jj] - u[jj], x - u[jj]), n[jj])
            inside &= w > 1e-9 * nn[jj]
        if inside.any():
            return True
    return False
