"""C12 reference model: exhaustive float64 evaluation over ALL triangles, written from the definitions and
independent of every trimesh code path (no r-tree, no kd-tree, no tolerances of the library).

  * rays_all            Moller-Trumbore ray/triangle for every (ray, triangle) pair
  * halfline_edge_dist  distance between each ray (as a long segment) and every triangle edge
  * closest_all         closest point on every triangle to one query point (plane projection if it falls inside,
                        otherwise the nearest of the three edge segments -- the definition, not Ericson's region walk)
  * winding_number      generalized winding number (van Oosterom & Strackee solid angles)
"""

import numpy as np

EPS = float(np.finfo(np.float64).eps)
F32 = float(np.finfo(np.float32).eps)  # 2**-23


def corners(V, F):
    V = np.asarray(V, dtype=np.float64)
    F = np.asarray(F, dtype=np.int64)
    return V[F[:, 0]], V[F[:, 1]], V[F[:, 2]]


def _dot(a, b):
    return (a * b).sum(axis=-1)


def tri_geometry(A, B, C):
    """unit normals (right-hand rule on A,B,C), doubled areas, the three altitudes (distance of vertex i to the
    opposite edge); barycentric coordinate i of a point in the plane = its distance to the opposite edge / altitude i."""
    e1 = B - A
    e2 = C - A
    n = np.cross(e1, e2)
    a2 = np.linalg.norm(n, axis=1)
    with np.errstate(all="ignore"):
        nh = n / a2[:, None]
        alt = np.column_stack((a2 / np.linalg.norm(C - B, axis=1), a2 / np.linalg.norm(A - C, axis=1), a2 / np.linalg.norm(B - A, axis=1)))
    return nh, a2, alt


def rays_all(A, B, C, O, D):
    """Moller-Trumbore for every pair.  O, D: (R,3) (D need not be unit).  Returns dict of (R,T) arrays:
    t (ray parameter in units of |D|), b0,b1,b2 (barycentrics of the plane crossing w.r.t. A,B,C), cosang = n_hat.d_hat,
    par (exactly parallel: determinant is zero, other entries are nan)."""
    O = np.asarray(O, dtype=np.float64)[:, None, :]
    D = np.asarray(D, dtype=np.float64)[:, None, :]
    e1 = (B - A)[None]
    e2 = (C - A)[None]
    pvec = np.cross(D, e2)
    det = _dot(e1, pvec)
    tvec = O - A[None]
    qvec = np.cross(tvec, e1)
    with np.errstate(all="ignore"):
        inv = 1.0 / det
        u = _dot(tvec, pvec) * inv
        v = _dot(D, qvec) * inv
        t = _dot(e2, qvec) * inv
        n = np.cross(e1, e2)
        cosang = -det / (np.linalg.norm(n, axis=-1) * np.linalg.norm(D, axis=-1))
    par = det == 0.0
    return {"t": t, "b0": 1.0 - u - v, "b1": u, "b2": v, "cosang": cosang, "par": par}


def _segseg(p1, q1, p2, q2):
    """distance between segments [p1,q1] and [p2,q2] (broadcasting over leading axes); Ericson 5.1.9 written with
    np.where, both segments assumed non-degenerate."""
    d1 = q1 - p1
    d2 = q2 - p2
    r = p1 - p2
    a = _dot(d1, d1)
    e = _dot(d2, d2)
    f = _dot(d2, r)
    c = _dot(d1, r)
    b = _dot(d1, d2)
    denom = a * e - b * b
    with np.errstate(all="ignore"):
        s = np.where(denom > 0, np.clip((b * f - c * e) / denom, 0.0, 1.0), 0.0)
        t = (b * s + f) / e
        s = np.where(t < 0, np.clip(-c / a, 0.0, 1.0), np.where(t > 1, np.clip((b - c) / a, 0.0, 1.0), s))
        t = np.clip(t, 0.0, 1.0)
    c1 = p1 + d1 * s[..., None]
    c2 = p2 + d2 * t[..., None]
    return np.linalg.norm(c1 - c2, axis=-1)


def halfline_edge_dist(A, B, C, O, D, reach):
    """(R,T) minimum distance between the ray {o + s d_hat, 0 <= s <= reach[r]} and the three edges of each triangle"""
    O = np.asarray(O, dtype=np.float64)
    D = np.asarray(D, dtype=np.float64)
    dh = D / np.linalg.norm(D, axis=1)[:, None]
    P1 = O[:, None, :]
    Q1 = (O + dh * np.asarray(reach, dtype=np.float64)[:, None])[:, None, :]
    out = None
    for a, b in ((A, B), (B, C), (C, A)):
        d = _segseg(P1, Q1, a[None], b[None])
        out = d if out is None else np.minimum(out, d)
    return out


def _closest_on_segments(p, a, b):
    ab = b - a
    with np.errstate(all="ignore"):
        s = np.clip(_dot(p - a, ab) / _dot(ab, ab), 0.0, 1.0)
    s = np.where(np.isfinite(s), s, 0.0)
    return a + ab * s[:, None], s


def closest_all(A, B, C, p):
    """closest point on every triangle to p.  Returns (points (T,3), dist (T,), feature (T,) in {'f','e','v'},
    bary (T,3) of the returned point)."""
    p = np.asarray(p, dtype=np.float64)
    nh, a2, alt = tri_geometry(A, B, C)
    h = _dot(p - A, nh)
    proj = p - nh * h[:, None]
    # barycentrics of the projection by signed sub-areas
    n = np.cross(B - A, C - A)
    nn = _dot(n, n)
    with np.errstate(all="ignore"):
        b0 = _dot(np.cross(C - B, proj - B), n) / nn
        b1 = _dot(np.cross(A - C, proj - C), n) / nn
        b2 = 1.0 - b0 - b1
    inside = (b0 >= 0) & (b1 >= 0) & (b2 >= 0)
    best = np.where(inside[:, None], proj, 0.0)
    bd = np.where(inside, np.abs(h), np.inf)
    feat = np.where(inside, "f", "?").astype("<U1")
    for a, b in ((A, B), (B, C), (C, A)):
        q, s = _closest_on_segments(p, a, b)
        d = np.linalg.norm(q - p, axis=1)
        better = (~inside) & (d < bd)
        best = np.where(better[:, None], q, best)
        bd = np.where(better, d, bd)
        feat = np.where(better, np.where((s <= 0) | (s >= 1), "v", "e"), feat)
    return best, bd, feat


def projection_bary(A, B, C, tri, p):
    """barycentrics (w.r.t. A,B,C of triangle tri) of the orthogonal projection of p onto the triangle's plane"""
    a, b, c = A[tri], B[tri], C[tri]
    n = np.cross(b - a, c - a)
    nn = float(np.dot(n, n))
    q = p - n * (np.dot(p - a, n) / nn)
    b0 = float(np.dot(np.cross(c - b, q - b), n) / nn)
    b1 = float(np.dot(np.cross(a - c, q - c), n) / nn)
    return np.array([b0, b1, 1.0 - b0 - b1])


def point_triangle_residual(A, B, C, tri, q):
    """distance from point q to triangle number tri (used to check 'the reported point lies on the reported triangle')"""
    pts, d, _ = closest_all(A[tri : tri + 1], B[tri : tri + 1], C[tri : tri + 1], q)
    return float(d[0])


def point_edges_residual(A, B, C, tri, q):
    """distance from q to the three edge segments of triangle tri: the whole point set of a zero-area triangle"""
    best = np.inf
    for a, b in ((A[tri], B[tri]), (B[tri], C[tri]), (C[tri], A[tri])):
        ab = b - a
        l2 = float(np.dot(ab, ab))
        s = min(1.0, max(0.0, float(np.dot(q - a, ab)) / l2)) if l2 > 0 else 0.0
        best = min(best, float(np.linalg.norm(q - (a + ab * s))))
    return best


def mesh_distance(A, B, C, p):
    """(distance, argmin triangle, closest point, feature, second-best distance among triangles whose closest point differs)"""
    pts, d, feat = closest_all(A, B, C, p)
    i = int(np.argmin(d))
    return float(d[i]), i, pts[i], str(feat[i]), d


def winding_number(A, B, C, p):
    a = A - p
    b = B - p
    c = C - p
    la = np.linalg.norm(a, axis=1)
    lb = np.linalg.norm(b, axis=1)
    lc = np.linalg.norm(c, axis=1)
    num = _dot(a, np.cross(b, c))
    den = la * lb * lc + _dot(a, b) * lc + _dot(b, c) * la + _dot(c, a) * lb
    return float((2.0 * np.arctan2(num, den)).sum() / (4.0 * np.pi))
