"""Closed-form reference solids for C15, written from the definitions (no trimesh code is used).

* polygon area moments by a signed triangle fan and the classical 7-point rule (exact for cubics);
* `revolved`: the polyhedron obtained by revolving a closed profile polygon P (in the half plane rho>=0)
  in k straight sections over `angle`: with the gauge of the fan polygon Q=(0,u_0..u_k), u_j=(cos t_j, sin t_j),
      int x^a y^b z^c dV = (a+b+2) * M_ab(Q) * intint_P rho^(a+b+1) z^c  drho dz
  (every radial half plane t_j cuts the solid in P, consecutive cuts are joined by straight chords, and the side
  quads are planar trapezoids, so the solid does not depend on how they are split into triangles);
* `prism`: right prism over a polygon with holes;
* rigid / mirrored placement of (volume, centre of mass, inertia)."""

import math

import numpy as np

# 7-point rule on a triangle, exact for polynomials of degree <= 3:
# centroid 9/20, the three vertices 1/20 each, the three edge midpoints 2/15 each
_W = np.array([9 / 20.0] + [1 / 20.0] * 3 + [2 / 15.0] * 3)


def _tri_points(a, b, c):
    """(m,2) arrays of triangle corners -> (m,7,2) quadrature points"""
    return np.stack([(a + b + c) / 3.0, a, b, c, (a + b) / 2.0, (b + c) / 2.0, (c + a) / 2.0], axis=1)


def ring_signed_area(ring):
    r = np.asarray(ring, dtype=np.float64)
    x, y = r[:, 0], r[:, 1]
    return 0.5 * float(np.sum(x * np.roll(y, -1) - np.roll(x, -1) * y))


def ring_perimeter(ring):
    r = np.asarray(ring, dtype=np.float64)
    return float(np.sum(np.linalg.norm(np.roll(r, -1, axis=0) - r, axis=1)))


def ring_moments(ring, exps, ref=None):
    """Signed integrals of x^a y^b over the polygon bounded by `ring` ((n,2), not repeated, any orientation:
    counter-clockwise counts positive) for every (a,b) in exps with a+b<=3."""
    r = np.asarray(ring, dtype=np.float64)
    if ref is None:
        ref = r[0]
    ref = np.asarray(ref, dtype=np.float64)
    a = np.broadcast_to(ref, r.shape)
    b = r
    c = np.roll(r, -1, axis=0)
    s = 0.5 * ((b[:, 0] - a[:, 0]) * (c[:, 1] - a[:, 1]) - (b[:, 1] - a[:, 1]) * (c[:, 0] - a[:, 0]))
    q = _tri_points(a, b, c)  # (m,7,2)
    out = []
    for ea, eb in exps:
        f = q[:, :, 0] ** ea * q[:, :, 1] ** eb
        out.append(float(np.sum(s * (f @ _W))))
    return out


def polygon_moments(rings, exps):
    """rings[0] is the outer boundary, the others are holes; orientation of the input is ignored."""
    total = np.zeros(len(exps))
    ref = np.asarray(rings[0], dtype=np.float64)[0]
    for i, ring in enumerate(rings):
        r = np.asarray(ring, dtype=np.float64)
        sgn = 1.0 if ring_signed_area(r) > 0 else -1.0
        m = np.array(ring_moments(r, exps, ref=ref)) * sgn  # now positive area
        total += m if i == 0 else -m
    return total.tolist()


def inertia_about_com(V, m1, m2):
    """V volume, m1 = [int x, int y, int z], m2 = dict xx,yy,zz,xy,xz,yz of second moments about the origin
    -> (com, 3x3 inertia tensor about the centre of mass, axes parallel to the frame)"""
    com = np.array(m1, dtype=np.float64) / V
    xx = m2["xx"] - V * com[0] ** 2
    yy = m2["yy"] - V * com[1] ** 2
    zz = m2["zz"] - V * com[2] ** 2
    xy = m2["xy"] - V * com[0] * com[1]
    xz = m2["xz"] - V * com[0] * com[2]
    yz = m2["yz"] - V * com[1] * com[2]
    I = np.array([[yy + zz, -xy, -xz], [-xy, xx + zz, -yz], [-xz, -yz, xx + yy]])
    return com, I


def place(solid, M):
    """Image of a solid description under x -> L x + t with L orthogonal (det +1 or -1)."""
    M = np.asarray(M, dtype=np.float64)
    L, t = M[:3, :3], M[:3, 3]
    out = dict(solid)
    out["com"] = L @ solid["com"] + t
    out["inertia"] = L @ solid["inertia"] @ L.T
    out["vertices"] = solid["vertices"] @ L.T + t
    return out


# ------------------------------------------------------------------------------------------ revolution


def revolved(profile, sections, angle=None, capped=False):
    """profile: (p,2) vertices (rho, z) of the closed counter-clockwise profile polygon (not repeated; an open
    polyline from the axis back to the axis is closed along the axis). sections straight sections over `angle`
    (None = full turn). -> dict(volume, area, com, inertia, vertices (unique), nfaces (full turn only))"""
    P = np.asarray(profile, dtype=np.float64)
    k = int(sections)
    full = angle is None
    ang = 2.0 * math.pi if full else float(angle)
    d = ang / k
    th = np.arange(k + (0 if full else 1)) * d
    U = np.column_stack((np.cos(th), np.sin(th)))
    # fan polygon Q = (0, u_0 .. u_k)
    u0 = U
    u1 = np.roll(U, -1, axis=0) if full else U[1:]
    if not full:
        u0 = U[:-1]
    zero = np.zeros_like(u0)
    sQ = 0.5 * (u0[:, 0] * u1[:, 1] - u0[:, 1] * u1[:, 0])
    qQ = _tri_points(zero, u0, u1)

    def MQ(a, b):
        return float(np.sum(sQ * ((qQ[:, :, 0] ** a * qQ[:, :, 1] ** b) @ _W)))

    # profile integrals of rho^i z^j (fan from the origin of the (rho,z) plane is fine: the axis is part of it)
    ex = [(1, 0), (2, 0), (1, 1), (3, 0), (1, 2), (2, 1)]
    p10, p20, p11, p30, p12, p21 = ring_moments(P, ex, ref=[0.0, P[0][1]])
    V = 2 * MQ(0, 0) * p10
    m1 = [3 * MQ(1, 0) * p20, 3 * MQ(0, 1) * p20, 2 * MQ(0, 0) * p11]
    m2 = {
        "xx": 4 * MQ(2, 0) * p30,
        "yy": 4 * MQ(0, 2) * p30,
        "xy": 4 * MQ(1, 1) * p30,
        "zz": 2 * MQ(0, 0) * p12,
        "xz": 3 * MQ(1, 0) * p21,
        "yz": 3 * MQ(0, 1) * p21,
    }
    com, I = inertia_about_com(V, m1, m2)
    # lateral area: every profile edge sweeps k planar trapezoids with parallel sides 2 r sin(d/2)
    a = P
    b = np.roll(P, -1, axis=0)
    hh = np.sqrt(((b[:, 0] - a[:, 0]) * math.cos(d / 2)) ** 2 + (b[:, 1] - a[:, 1]) ** 2)
    area = float(np.sum(k * (a[:, 0] + b[:, 0]) * math.sin(d / 2) * hh))
    if not full and capped:
        area += 2.0 * abs(ring_signed_area(P))
    # vertices
    vs = []
    for r, z in P:
        if abs(r) == 0.0:
            vs.append([[0.0, 0.0, z]])
        else:
            vs.append(np.column_stack((r * U[:, 0], r * U[:, 1], np.full(len(U), z))))
    verts = np.vstack(vs)
    nfaces = None
    if full:
        nfaces = 0
        for (r0, z0), (r1, z1) in zip(a, b):
            on0, on1 = r0 == 0.0, r1 == 0.0
            if on0 and on1:
                continue
            nfaces += k if (on0 or on1) else 2 * k
    return {"volume": V, "area": area, "com": com, "inertia": I, "vertices": verts, "nfaces": nfaces}


# ------------------------------------------------------------------------------------------ prism / box


def prism(rings, height):
    """Right prism over the polygon (rings[0] outer, rest holes) from z=0 to z=height (height may be negative)."""
    h = float(height)
    ex = [(0, 0), (1, 0), (0, 1), (2, 0), (0, 2), (1, 1)]
    A, sx, sy, sxx, syy, sxy = polygon_moments(rings, ex)
    per = sum(ring_perimeter(r) for r in rings)
    ah = abs(h)
    V = A * ah
    m1 = [sx * ah, sy * ah, A * h * ah / 2.0]
    m2 = {"xx": sxx * ah, "yy": syy * ah, "xy": sxy * ah, "zz": A * ah**3 / 3.0, "xz": sx * h * ah / 2.0, "yz": sy * h * ah / 2.0}
    com, I = inertia_about_com(V, m1, m2)
    pts = np.vstack([np.asarray(r, dtype=np.float64) for r in rings])
    verts = np.vstack((np.column_stack((pts, np.zeros(len(pts)))), np.column_stack((pts, np.full(len(pts), h)))))
    return {"volume": V, "area": 2 * A + per * ah, "com": com, "inertia": I, "vertices": verts, "poly_area": A, "perimeter": per}


def box(extents):
    a, b, c = (float(x) for x in extents)
    V = a * b * c
    I = V / 12.0 * np.diag([b * b + c * c, a * a + c * c, a * a + b * b])
    corners = np.array([[sx * a / 2, sy * b / 2, sz * c / 2] for sx in (-1, 1) for sy in (-1, 1) for sz in (-1, 1)])
    return {"volume": V, "area": 2 * (a * b + b * c + a * c), "com": np.zeros(3), "inertia": I, "vertices": corners}


# ------------------------------------------------------------------------------------------ smooth values


def smooth_cylinder(r, h):
    V = math.pi * r * r * h
    return {"volume": V, "area": 2 * math.pi * r * (r + h), "inertia": np.diag([V * (3 * r * r + h * h) / 12.0] * 2 + [V * r * r / 2.0])}


def smooth_sphere(r):
    V = 4.0 / 3.0 * math.pi * r**3
    return {"volume": V, "area": 4 * math.pi * r * r, "inertia": np.eye(3) * (0.4 * V * r * r)}


def smooth_capsule(r, h):
    return {"volume": math.pi * r * r * h + 4.0 / 3.0 * math.pi * r**3, "area": 2 * math.pi * r * h + 4 * math.pi * r * r}


def smooth_torus(R, r):
    return {"volume": 2 * math.pi**2 * R * r * r, "area": 4 * math.pi**2 * R * r}


def smooth_cone(r, h):
    return {"volume": math.pi * r * r * h / 3.0, "area": math.pi * r * (r + math.hypot(r, h))}


# ------------------------------------------------------------------------------------------ point sets


def match_point_sets(got, want, tol):
    """Are two point sets equal as sets (every point of one has a partner within tol in the other, equal sizes)?
    -> (ok, message)"""
    from scipy.spatial import cKDTree

    got = np.asarray(got, dtype=np.float64).reshape((-1, 3))
    want = np.asarray(want, dtype=np.float64).reshape((-1, 3))
    if len(got) != len(want):
        return False, f"{len(got)} vertices, expected {len(want)}"
    if len(got) == 0:
        return True, ""
    d1, i1 = cKDTree(got).query(want)
    if d1.max() > tol:
        j = int(np.argmax(d1))
        return False, f"expected vertex {want[j].tolist()} is {d1.max():.3g} from the nearest mesh vertex"
    if len(np.unique(i1)) != len(want):
        return False, "two expected vertices map to the same mesh vertex"
    return True, ""


def point_in_rings(pt, rings):
    """even-odd point in polygon with holes (pt strictly inside assumed, no boundary handling)"""
    x, y = pt
    inside = False
    for ring in rings:
        r = np.asarray(ring, dtype=np.float64)
        x0, y0 = r[:, 0], r[:, 1]
        x1, y1 = np.roll(x0, -1), np.roll(y0, -1)
        cond = (y0 > y) != (y1 > y)
        with np.errstate(divide="ignore", invalid="ignore"):
            xi = x0 + (y - y0) * (x1 - x0) / (y1 - y0)
        inside ^= bool(np.sum(cond & (x < xi)) % 2)
    return inside
