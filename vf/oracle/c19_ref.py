"""Reference formulas for C19, written from the textbook definitions and independent of
trimesh.transformations (no lookup tables, no shared code paths).

Conventions (the ones documented in trimesh.transformations):
  * quaternions are [w, x, y, z];
  * an Euler convention is a 4-letter string: 's'|'r' (static / rotating frame) + three axis letters.
    static  'sABC':  first rotate about fixed A by ai, then fixed B by aj, then fixed C by ak
                     ->  R = R_C(ak) . R_B(aj) . R_A(ai)
    rotating 'rABC': intrinsic rotations about A, then the new B, then the new C
                     ->  R = R_A(ai) . R_B(aj) . R_C(ak)
"""

import math

import numpy as np

EPS = float(np.finfo(np.float64).eps)  # 2.22e-16

AXES24 = [f + a + b + c for f in "sr" for a in "xyz" for b in "xyz" for c in "xyz" if a != b and b != c]
assert len(AXES24) == 24


def elementary(axis, angle):
    """3x3 right-handed rotation about coordinate axis 'x'|'y'|'z' (counter-clockwise looking down the axis)."""
    c, s = math.cos(angle), math.sin(angle)
    if axis == "x":
        return np.array([[1.0, 0.0, 0.0], [0.0, c, -s], [0.0, s, c]])
    if axis == "y":
        return np.array([[c, 0.0, s], [0.0, 1.0, 0.0], [-s, 0.0, c]])
    if axis == "z":
        return np.array([[c, -s, 0.0], [s, c, 0.0], [0.0, 0.0, 1.0]])
    raise ValueError(axis)


def euler_ref(ai, aj, ak, axes):
    frame, a, b, c = axes[0], axes[1], axes[2], axes[3]
    Ra, Rb, Rc = elementary(a, ai), elementary(b, aj), elementary(c, ak)
    if frame == "s":
        return Rc @ Rb @ Ra
    if frame == "r":
        return Ra @ Rb @ Rc
    raise ValueError(axes)


def axes_tuple(axes):
    """The documented integer encoding (inner axis, parity, repetition, frame) derived from the string,
    not read from trimesh's table: a rotating-frame sequence is the static sequence read backwards."""
    frame = 1 if axes[0] == "r" else 0
    letters = axes[1:][::-1] if frame else axes[1:]
    idx = ["xyz".index(ch) for ch in letters]
    first = idx[0]
    parity = 0 if idx[1] == (first + 1) % 3 else 1
    repetition = 1 if idx[0] == idx[2] else 0
    return (first, parity, repetition, frame)


def gimbal_measure(R, axes):
    """Distance of the middle angle from the singular configuration of the convention:
    |cos(aj)| for three distinct axes, |sin(aj)| for a repeated axis; read from the matrix itself
    (norm of the two entries that would both vanish)."""
    first, parity, repetition, frame = axes_tuple(axes)
    i = first
    j = (i + 1 + parity) % 3
    k = (i + 2 - parity) % 3
    if repetition:
        return math.hypot(R[i, j], R[i, k])
    return math.hypot(R[i, i], R[j, i])


def unit(v):
    v = np.asarray(v, dtype=np.float64)
    return v / math.sqrt(float(np.dot(v, v)))


def skew(a):
    return np.array([[0.0, -a[2], a[1]], [a[2], 0.0, -a[0]], [-a[1], a[0], 0.0]])


def rodrigues(axis, angle):
    a = unit(axis)
    K = skew(a)
    return np.eye(3) + math.sin(angle) * K + (1.0 - math.cos(angle)) * (K @ K)


def quat_to_mat(q):
    """R = (w^2 - v.v) I + 2 v v^T + 2 w [v]x   for the normalised quaternion."""
    q = unit(q)
    w, v = q[0], q[1:]
    return (w * w - float(np.dot(v, v))) * np.eye(3) + 2.0 * np.outer(v, v) + 2.0 * w * skew(v)


def hamilton(q1, q0):
    """q1 * q0 : (w1 w0 - v1.v0,  w1 v0 + w0 v1 + v1 x v0)"""
    q1 = np.asarray(q1, dtype=np.float64)
    q0 = np.asarray(q0, dtype=np.float64)
    w = q1[0] * q0[0] - float(np.dot(q1[1:], q0[1:]))
    v = q1[0] * q0[1:] + q0[0] * q1[1:] + np.cross(q1[1:], q0[1:])
    return np.array([w, v[0], v[1], v[2]])


def axis_angle_quat(axis, angle):
    a = unit(axis)
    s = math.sin(angle / 2.0)
    return np.array([math.cos(angle / 2.0), a[0] * s, a[1] * s, a[2] * s])


def orth_defect(R):
    """max |R^T R - I| and |det R - 1| of a 3x3 (or 2x2)"""
    R = np.asarray(R, dtype=np.float64)
    n = R.shape[0]
    return float(np.abs(R.T @ R - np.eye(n)).max()), abs(float(np.linalg.det(R)) - 1.0)


def rot_angle(R):
    """geodesic angle of a 3x3 rotation, stable near 0 and pi"""
    R = np.asarray(R, dtype=np.float64)
    s = 0.5 * math.sqrt((R[2, 1] - R[1, 2]) ** 2 + (R[0, 2] - R[2, 0]) ** 2 + (R[1, 0] - R[0, 1]) ** 2)
    c = 0.5 * (R[0, 0] + R[1, 1] + R[2, 2] - 1.0)
    return math.atan2(s, c)


def vec_angle(u, v):
    """angle between two vectors of any dimension, stable near 0 and pi (Kahan)"""
    u = unit(u)
    v = unit(v)
    return 2.0 * math.atan2(float(np.linalg.norm(u - v)), float(np.linalg.norm(u + v)))


def slerp_ref(q0, q1, t, shortest):
    """definition of spherical linear interpolation on the unit 3-sphere -> (q(t), omega)"""
    q0 = unit(q0)
    q1 = unit(q1)
    if shortest and float(np.dot(q0, q1)) < 0.0:
        q1 = -q1
    om = vec_angle(q0, q1)
    if om < 1e-6:
        # sin(t om)/sin(om) = t (1 + O(om^2)): linear interpolation is exact to 1e-12 here
        q = (1.0 - t) * q0 + t * q1
        return q / math.sqrt(float(np.dot(q, q))), om
    so = math.sin(om)
    return (math.sin((1.0 - t) * om) / so) * q0 + (math.sin(t * om) / so) * q1, om


def hom(L, t=None):
    L = np.asarray(L, dtype=np.float64)
    n = L.shape[0]
    M = np.eye(n + 1)
    M[:n, :n] = L
    if t is not None:
        M[:n, n] = t
    return M


def trs_ref(scale, shear, angles, translate):
    """T . R(sxyz) . Z . S   with Z the unit upper-triangular shear [xy, xz, yz] (docstring of compose_matrix)"""
    R = euler_ref(angles[0], angles[1], angles[2], "sxyz")
    Z = np.array([[1.0, shear[0], shear[1]], [0.0, 1.0, shear[2]], [0.0, 0.0, 1.0]])
    S = np.diag(np.asarray(scale, dtype=np.float64))
    return hom(R @ Z @ S, translate)


def circ_diff(a, b):
    """|a - b| on the circle"""
    d = (a - b) % (2.0 * math.pi)
    return min(d, 2.0 * math.pi - d)
