"""Registry of the derived values a Trimesh reports about itself + comparators.

Used by C01 (live mesh vs cold reconstruction), C04 and C17.  A *value* is obtained with READS[name](mesh); two
values are compared with same(name, a, b, scale).  Both sides of every comparison run the same trimesh code on the
same arrays; the only difference is the history, so tolerances are tight (1e-9 relative to the natural scale of the
quantity) — real staleness is O(1)."""

import numpy as np

# fixed query data (unit-scale; scaled by the mesh extents at read time)
_RS = np.random.RandomState(12345)
_DIRS = _RS.normal(size=(12, 3))
_DIRS /= np.linalg.norm(_DIRS, axis=1)[:, None]
_PTS = _RS.uniform(-1, 1, (10, 3))


def _frame(m):
    v = np.asarray(m.vertices)
    if len(v) == 0 or not np.isfinite(v).all():
        return np.zeros(3), 1.0
    lo, hi = v.min(axis=0), v.max(axis=0)
    return (lo + hi) / 2.0, float(max(np.linalg.norm(hi - lo), 1e-12))


def _rays(m):
    c, d = _frame(m)
    origins = c + _DIRS * d * 1.5
    return origins, -_DIRS + 0.05 * _DIRS[::-1]


def _ray_hits(m):
    o, d = _rays(m)
    loc, ray, tri = m.ray.intersects_location(o, d, multiple_hits=True)
    rows = sorted((int(r), int(t), tuple(np.round(l, 12))) for l, r, t in zip(loc, ray, tri))
    return {"ray_tri": [(r, t) for r, t, _ in rows], "loc": np.array([l for _, _, l in rows], dtype=np.float64).reshape((-1, 3))}


def _ray_first(m):
    o, d = _rays(m)
    return np.asarray(m.ray.intersects_first(o, d))


def _ray_any(m):
    o, d = _rays(m)
    return np.asarray(m.ray.intersects_any(o, d))


def _nearest(m):
    c, d = _frame(m)
    p = c + _PTS * d * 0.8
    cp, dist, tid = m.nearest.on_surface(p)
    return {"closest": np.asarray(cp), "distance": np.asarray(dist)}


def _signed(m):
    c, d = _frame(m)
    p = c + _PTS * d * 0.8
    return np.asarray(m.nearest.signed_distance(p))


def _contains(m):
    c, d = _frame(m)
    return np.asarray(m.contains(c + _PTS * d * 0.45))


def _kdtree(m):
    c, d = _frame(m)
    dist, idx = m.kdtree.query(c + _PTS * d)
    return np.asarray(dist)


def _hull(m):
    h = m.convex_hull
    return {"volume": float(h.volume), "area": float(h.area), "nverts": int(len(h.vertices)), "bounds": np.asarray(h.bounds)}


def _adjacency(m):
    """face_adjacency with everything that is documented to be row-aligned with it, canonicalised."""
    adj = np.asarray(m.face_adjacency)
    edges = np.asarray(m.face_adjacency_edges)
    unshared = np.asarray(m.face_adjacency_unshared)
    angles = np.asarray(m.face_adjacency_angles)
    convex = np.asarray(m.face_adjacency_convex)
    radius = np.asarray(m.face_adjacency_radius)
    span = np.asarray(m.face_adjacency_span)
    rows = []
    for i in range(len(adj)):
        a, b = int(adj[i][0]), int(adj[i][1])
        ua, ub = int(unshared[i][0]), int(unshared[i][1])
        if a > b:
            a, b, ua, ub = b, a, ub, ua
        rows.append(((a, b), tuple(sorted(int(x) for x in edges[i])), (ua, ub), float(angles[i]), bool(convex[i]), float(radius[i]), float(span[i])))
    rows.sort(key=lambda r: (r[0], r[1]))
    return rows


def _facets(m):
    f = m.facets
    return sorted(tuple(sorted(int(i) for i in g)) for g in f)


def _neighbors(m):
    return [sorted(int(i) for i in n) for n in m.vertex_neighbors]


def _vertex_faces(m):
    return [sorted(int(i) for i in row if i >= 0) for row in np.asarray(m.vertex_faces)]


def _sparse(x):
    x = x.tocoo()
    return sorted(zip(x.row.tolist(), x.col.tolist(), [bool(v) if x.dtype == bool else float(v) for v in x.data]))


# name -> (getter, kind, dimension exponent of the quantity in length units, cost class)
# kind: exact | float | rows (float rows as multiset) | struct (nested python/np structure) | unit (unit vectors)
READS = {
    "face_normals": (lambda m: np.asarray(m.face_normals), "unit", 0, 0),
    "vertex_normals": (lambda m: np.asarray(m.vertex_normals), "unit", 0, 0),
    "area": (lambda m: float(m.area), "float", 2, 0),
    "area_faces": (lambda m: np.asarray(m.area_faces), "float", 2, 0),
    "triangles": (lambda m: np.asarray(m.triangles), "float", 1, 0),
    "triangles_center": (lambda m: np.asarray(m.triangles_center), "float", 1, 0),
    "triangles_cross": (lambda m: np.asarray(m.triangles_cross), "float", 2, 0),
    "bounds": (lambda m: None if m.bounds is None else np.asarray(m.bounds), "float", 1, 0),
    "extents": (lambda m: None if m.extents is None else np.asarray(m.extents), "float", 1, 0),
    "scale": (lambda m: float(m.scale), "float", 1, 0),
    "centroid": (lambda m: np.asarray(m.centroid), "float", 1, 0),
    "volume": (lambda m: float(m.volume), "float", 3, 0),
    "mass": (lambda m: float(m.mass), "float", 3, 0),
    "center_mass": (lambda m: np.asarray(m.center_mass), "float", 1, 0),
    "moment_inertia": (lambda m: np.asarray(m.moment_inertia), "float", 5, 0),
    "principal_inertia_components": (lambda m: np.asarray(m.principal_inertia_components), "float", 5, 0),
    "edges": (lambda m: np.asarray(m.edges), "exact", 0, 0),
    "edges_face": (lambda m: np.asarray(m.edges_face), "exact", 0, 0),
    "edges_sorted": (lambda m: np.asarray(m.edges_sorted), "exact", 0, 0),
    "edges_unique": (lambda m: sorted(map(tuple, np.asarray(m.edges_unique).tolist())), "struct", 0, 0),
    "edges_unique_recon": (lambda m: np.asarray(m.edges_unique)[np.asarray(m.edges_unique_inverse)], "exact", 0, 0),
    "edges_unique_length": (lambda m: np.sort(np.asarray(m.edges_unique_length)), "float", 1, 0),
    "edges_sparse": (lambda m: _sparse(m.edges_sparse), "struct", 0, 0),
    "faces_unique_edges": (lambda m: np.asarray(m.edges_unique)[np.asarray(m.faces_unique_edges)], "exact", 0, 0),
    "faces_sparse": (lambda m: _sparse(m.faces_sparse), "struct", 0, 0),
    "face_adjacency": (_adjacency, "struct", 0, 0),
    "face_adjacency_projections_sorted": (lambda m: np.sort(np.abs(np.asarray(m.face_adjacency_projections))) if False else float(len(m.face_adjacency_projections)), "float", 0, 0),
    "face_angles": (lambda m: np.asarray(m.face_angles), "float", 0, 0),
    "vertex_defects": (lambda m: np.asarray(m.vertex_defects), "float", 0, 0),
    "vertex_degree": (lambda m: np.asarray(m.vertex_degree), "exact", 0, 0),
    "vertex_faces": (_vertex_faces, "struct", 0, 0),
    "vertex_neighbors": (_neighbors, "struct", 0, 0),
    "referenced_vertices": (lambda m: np.asarray(m.referenced_vertices), "exact", 0, 0),
    "body_count": (lambda m: int(m.body_count), "exact", 0, 0),
    "euler_number": (lambda m: int(m.euler_number), "exact", 0, 0),
    "is_watertight": (lambda m: bool(m.is_watertight), "exact", 0, 0),
    "is_winding_consistent": (lambda m: bool(m.is_winding_consistent), "exact", 0, 0),
    "is_volume": (lambda m: bool(m.is_volume), "exact", 0, 0),
    "is_convex": (lambda m: bool(m.is_convex), "exact", 0, 1),
    "is_empty": (lambda m: bool(m.is_empty), "exact", 0, 0),
    "facets": (_facets, "struct", 0, 1),
    "facets_area_sorted": (lambda m: np.sort(np.asarray(m.facets_area)), "float", 2, 1),
    "kdtree": (_kdtree, "float", 1, 1),
    "triangles_tree_bounds": (lambda m: np.asarray(m.triangles_tree.bounds), "float", 1, 1),
    "convex_hull": (_hull, "hull", 0, 2),
    "bounding_box": (lambda m: np.asarray(m.bounding_box.extents), "float", 1, 1),
    "bounding_box_oriented_volume": (lambda m: float(m.bounding_box_oriented.volume), "float", 3, 2),
    "ray_hits": (_ray_hits, "ray", 1, 2),
    "ray_first": (_ray_first, "exact", 0, 2),
    "ray_any": (_ray_any, "exact", 0, 2),
    "nearest": (_nearest, "nearest", 1, 2),
    "signed_distance": (_signed, "float", 1, 2),
    "contains": (_contains, "exact", 0, 2),
}
del READS["face_adjacency_projections_sorted"]

CHEAP = [k for k, v in READS.items() if v[3] == 0]
MEDIUM = [k for k, v in READS.items() if v[3] <= 1]
ALL = list(READS)
# values that only make sense on watertight solids (ray parity etc.) are still *compared*: both sides get the same arrays


def read(m, name):
    """-> ("ok", value) or ("exc", exception type name)"""
    try:
        return ("ok", READS[name][0](m))
    except BaseException as e:  # noqa
        if isinstance(e, (KeyboardInterrupt, SystemExit, MemoryError)):
            raise
        return ("exc", type(e).__name__)


def _close(a, b, atol, rtol=1e-9):
    a = np.asarray(a, dtype=np.float64)
    b = np.asarray(b, dtype=np.float64)
    if a.shape != b.shape:
        return False, f"shape {a.shape} != {b.shape}"
    if a.size == 0:
        return True, ""
    ok = np.isclose(a, b, rtol=rtol, atol=atol, equal_nan=True)
    if ok.all():
        return True, ""
    bad = np.argwhere(~ok)[0]
    return False, f"max |diff| {np.nanmax(np.abs(a - b)):.3g} (atol {atol:.3g}) first at index {tuple(int(x) for x in bad)}: {a[tuple(bad)]!r} vs {b[tuple(bad)]!r}"


def same(name, va, vb, scale, unit_atol=1e-9):
    """compare two read() results. -> (bool, message)"""
    if va[0] != vb[0]:
        return False, f"outcome {va[0]}:{va[1] if va[0] == 'exc' else ''} vs {vb[0]}:{vb[1] if vb[0] == 'exc' else ''}"
    if va[0] == "exc":
        return (va[1] == vb[1]), f"exception {va[1]} vs {vb[1]}"
    a, b = va[1], vb[1]
    kind, dim = READS[name][1], READS[name][2]
    if a is None or b is None:
        return (a is None and b is None), "None vs value"
    atol = 1e-9 * (scale**dim) if dim else 1e-9
    if kind == "exact":
        a = np.asarray(a)
        b = np.asarray(b)
        if a.shape != b.shape:
            return False, f"shape {a.shape} != {b.shape}"
        ok = np.array_equal(a, b)
        if ok:
            return True, ""
        bad = np.argwhere(a != b)[0]
        return False, f"first difference at {tuple(int(x) for x in bad)}: {a[tuple(bad)]!r} vs {b[tuple(bad)]!r}"
    if kind == "float":
        return _close(a, b, atol)
    if kind == "unit":
        return _close(a, b, unit_atol, rtol=0)
    if kind == "struct":
        if name == "face_adjacency":
            if len(a) != len(b):
                return False, f"{len(a)} adjacent pairs vs {len(b)}"
            for ra, rb in zip(a, b):
                if ra[:3] != rb[:3] or ra[4] != rb[4]:
                    return False, f"row {ra[:3]} convex={ra[4]} vs {rb[:3]} convex={rb[4]}"
                # the angle comes from arccos of a dot product of unit normals (absolute error ~sqrt(eps) near 0 and pi)
                # and the radius divides by a function of the angle that vanishes at 0 / pi: compare the radius only
                # where it is well conditioned
                well = 1e-3 < ra[3] < np.pi - 1e-3 and 1e-3 < rb[3] < np.pi - 1e-3
                if not (np.isclose(ra[3], rb[3], rtol=0, atol=1e-7) and (not well or np.isclose(ra[5], rb[5], rtol=1e-6, atol=1e-6 * scale, equal_nan=True)) and np.isclose(ra[6], rb[6], rtol=1e-9, atol=1e-9 * scale)):
                    return False, f"row {ra[0]}: angle/radius/span {ra[3:]} vs {rb[3:]}"
            return True, ""
        return (a == b), (f"{str(a)[:200]} vs {str(b)[:200]}" if a != b else "")
    if kind == "hull":
        ok = a["nverts"] == b["nverts"]
        ok1, msg = _close([a["volume"], a["area"] * scale], [b["volume"], b["area"] * scale], 1e-9 * scale**3)
        ok2, msg2 = _close(a["bounds"], b["bounds"], 1e-9 * scale)
        return (ok and ok1 and ok2), f"hull {a['nverts']} verts vol {a['volume']} vs {b['nverts']} verts vol {b['volume']} {msg} {msg2}"
    if kind == "ray":
        if a["ray_tri"] != b["ray_tri"]:
            return False, f"hit (ray, triangle) sets differ: {a['ray_tri'][:8]} vs {b['ray_tri'][:8]}"
        return _close(a["loc"], b["loc"], 1e-6 * scale)
    if kind == "nearest":
        ok1, m1 = _close(a["distance"], b["distance"], 1e-9 * scale)
        ok2, m2 = _close(a["closest"], b["closest"], 1e-7 * scale)
        return (ok1 and ok2), m1 + m2
    raise ValueError(kind)
