"""Minimal enclosing ball (2-D / 3-D) by Welzl's algorithm, move-to-front variant, written from the
definition and independent of trimesh / qhull.

    miniball(P, seed) -> dict(center, radius, support, lambdas, certified, slack)

The answer carries its own optimality certificate: a ball B(c, r) that contains every point and whose
centre is a convex combination (all lambda >= 0) of points lying on its boundary is THE minimal enclosing
ball (if a smaller ball existed, its centre c' != c; the half-space {x : (x-c).(c'-c) <= 0} through c
contains at least one support point s because c is in their convex hull, and |s-c'| >= |s-c| = r).
`certified` says that this was verified numerically on the returned ball, so a caller never has to trust
the recursion, only the two explicit conditions.

All arithmetic is done on coordinates shifted to the bounding-box centre and scaled by the bounding-box
diagonal, so tolerances below are relative to the diameter of the set.
"""

import numpy as np

# a point counts as inside when |p-c|^2 <= r^2 + INSIDE (unit-diameter coordinates): ~4e3 ulp of 1.0, far
# above the rounding of the 3x3 solves for well conditioned supports and far below the 1e-6 comparison
INSIDE = 1e-12


def _ball_from(S):
    """Smallest ball with all points of S (k<=d+1, affinely independent if possible) on its boundary:
    the circumball inside the affine hull of S. Returns (center, r2, lambdas) with center = sum lambda_i S_i."""
    k = len(S)
    d = S[0].shape[0] if k else 0
    if k == 0:
        return None, -1.0, np.zeros(0)
    if k == 1:
        return S[0].copy(), 0.0, np.ones(1)
    p0 = S[0]
    Q = np.array([s - p0 for s in S[1:]])  # (k-1, d)
    G = Q @ Q.T
    b = 0.5 * np.einsum("ij,ij->i", Q, Q)
    try:
        mu = np.linalg.solve(G, b)
        if not np.isfinite(mu).all():
            raise np.linalg.LinAlgError
    except np.linalg.LinAlgError:
        mu = np.linalg.lstsq(G, b, rcond=None)[0]
    off = mu @ Q
    lam = np.concatenate(([1.0 - mu.sum()], mu))
    return p0 + off, float(off @ off), lam


def _mtf(P, n, S, d):
    """move-to-front recursion: minimal ball of P[:n] with S on the boundary. P is a python list (mutated)."""
    c, r2, _ = _ball_from(S)
    if len(S) == d + 1:
        return c, r2
    i = 0
    while i < n:
        p = P[i]
        if c is None or float((p - c) @ (p - c)) > r2 + INSIDE:
            c, r2 = _mtf(P, i, S + [p], d)
            P.insert(0, P.pop(i))
        i += 1
    return c, r2


def miniball(points, seed=0):
    X = np.asarray(points, dtype=np.float64)
    n, d = X.shape
    lo, hi = X.min(axis=0), X.max(axis=0)
    mid = (lo + hi) / 2.0
    diag = float(np.linalg.norm(hi - lo))
    if diag == 0.0:
        return {"center": mid, "radius": 0.0, "support": [0], "lambdas": [1.0], "certified": True, "slack": 0.0, "nsupport": 1}
    U = (X - mid) / diag
    U = np.unique(U, axis=0)
    rs = np.random.RandomState(seed & 0x7FFFFFFF)
    order = rs.permutation(len(U))
    P = [U[i] for i in order]
    c, r2 = _mtf(P, len(P), [], d)
    r = float(np.sqrt(max(r2, 0.0)))
    # ---- certificate, evaluated directly on (c, r)
    dist = np.linalg.norm(U - c, axis=1)
    slack = float(dist.max() - r)  # > 0 would mean a point sticks out
    on = np.nonzero(dist >= r - 1e-9)[0]
    # minimal support: non-negative least squares c = sum lam_i s_i, sum lam_i = 1 over boundary points.
    # (small active-set: try all subsets of size <= d+1 of at most 12 boundary points, take first with lam>=-tol)
    certified = False
    support = []
    lambdas = []
    cand = on[np.argsort(-dist[on])][:12]
    best = None
    import itertools

    for k in range(2, d + 2):
        for sub in itertools.combinations(cand.tolist(), k):
            S = [U[i] for i in sub]
            cc, rr2, lam = _ball_from(S)
            if not np.isfinite(lam).all():
                continue
            if np.linalg.norm(cc - c) <= 1e-7 and abs(np.sqrt(max(rr2, 0.0)) - r) <= 1e-7 and lam.min() >= -1e-7:
                best = (sub, lam)
                break
        if best:
            break
    if best is not None and slack <= 1e-9:
        certified = True
        support = list(best[0])
        lambdas = [float(v) for v in best[1]]
    return {
        "center": c * diag + mid,
        "radius": r * diag,
        "support": support,
        "nsupport": len(support),
        "lambdas": lambdas,
        "min_lambda": float(min(lambdas)) if lambdas else float("nan"),
        "certified": certified,
        "slack": slack * diag,
        "n_on_boundary": int((dist >= r - 1e-9).sum()),
    }
