"""Shared between the C20 driver (vf/props/c20.py) and its isolated worker (vf/c20_worker.py):
seed corpus and the deterministic fault operators.  A case is
   {"fmt": str, "seed": int index, "fault": [kind, args...], "entry": str, "via_path": bool}
and both sides rebuild the same mutated bytes from it."""

import io
import os
import zipfile

import numpy as np

REPO = os.path.realpath(os.environ.get("VERIF_REPO", "/repo"))

_SEEDS = None


def _mesh():
    import trimesh

    rs = np.random.RandomState(7)
    V = rs.uniform(-10, 10, (8, 3))
    F = np.array([[0, 1, 2], [2, 3, 4], [1, 5, 3], [0, 4, 5], [5, 6, 7], [0, 6, 2]])
    m = trimesh.Trimesh(V, F, process=False)
    m.visual.vertex_colors = rs.randint(0, 255, (8, 4)).astype(np.uint8)
    return m


def _read(name, limit=24000):
    # the bundled models are data, not code under test: a scratch copy of the package alone falls back to /repo/models
    base = os.path.join(REPO, "models")
    if not os.path.isdir(base):
        base = "/repo/models"
    p = os.path.join(base, name)
    if os.path.exists(p) and os.path.getsize(p) <= limit:
        with open(p, "rb") as f:
            return f.read()
    return None


def nested_blocks_dxf(levels):
    L = ["0", "SECTION", "2", "HEADER", "9", "$INSUNITS", "70", "1", "0", "ENDSEC", "0", "SECTION", "2", "BLOCKS"]
    L += ["0", "BLOCK", "8", "0", "2", "B0", "70", "0", "10", "0", "20", "0", "0", "LINE", "8", "0", "10", "0", "20", "0", "11", "1", "21", "1", "0", "ENDBLK"]
    for k in range(1, levels + 1):
        L += ["0", "BLOCK", "8", "0", "2", f"B{k}", "70", "0", "10", "0", "20", "0"]
        for dx in (0, 2**k):
            L += ["0", "INSERT", "8", "0", "2", f"B{k - 1}", "10", str(dx), "20", "0"]
        L += ["0", "ENDBLK"]
    L += ["0", "ENDSEC", "0", "SECTION", "2", "ENTITIES", "0", "INSERT", "8", "0", "2", f"B{levels}", "10", "0", "20", "0",
          "0", "LINE", "8", "0", "10", "0", "20", "0", "11", "3", "21", "4", "0", "ENDSEC", "0", "EOF"]
    return ("\n".join(L) + "\n").encode("ascii")


def seeds():
    """fmt -> list of valid byte strings (built by the exporters of the tree under test + small bundled models)"""
    global _SEEDS
    if _SEEDS is not None:
        return _SEEDS
    import trimesh

    m = _mesh()
    S = {}

    def add(fmt, data):
        if data is None:
            return
        if isinstance(data, str):
            data = data.encode("utf-8")
        S.setdefault(fmt, []).append(bytes(data))

    for fmt, kw in (("stl", {}), ("stl_ascii", {}), ("ply", {}), ("ply", {"encoding": "ascii"}), ("off", {}), ("obj", {}), ("glb", {}), ("3mf", {}), ("dae", {})):
        try:
            add(fmt, m.export(file_type=fmt, **kw))
        except BaseException:  # noqa
            pass
    try:
        g = m.export(file_type="gltf", merge_buffers=True)
        # self-contained gltf: embed the buffer as a data uri so one byte string is the whole input
        import base64
        import json

        tree = json.loads(g["model.gltf"].decode())
        for b in tree.get("buffers", []):
            uri = b.get("uri")
            if uri in g:
                b["uri"] = "data:application/octet-stream;base64," + base64.b64encode(g[uri]).decode()
        add("gltf", json.dumps(tree).encode())
    except BaseException:  # noqa
        pass
    try:
        # a nested, instanced scene: formats with a node hierarchy store references between their tables
        sc = trimesh.Scene()
        T = np.eye(4)
        T[:3, 3] = [1.0, 2.0, 3.0]
        sc.add_geometry(m, node_name="a", geom_name="g0", transform=T)
        sc.add_geometry(m.copy(), node_name="b", geom_name="g1", parent_node_name="a", transform=T)
        sc.graph.update(frame_to="c", frame_from="b", matrix=T, geometry="g0")
        sc.graph.update(frame_to="d", frame_from="c", matrix=T, geometry="g1")
        for fmt in ("3mf", "glb"):
            add(fmt, sc.export(file_type=fmt))
    except BaseException:  # noqa
        pass
    try:
        pc = trimesh.PointCloud(m.vertices, colors=m.visual.vertex_colors)
        add("xyz", pc.export(file_type="xyz"))
    except BaseException:  # noqa
        pass
    try:
        vg = trimesh.voxel.VoxelGrid(np.random.RandomState(1).rand(4, 5, 3) > 0.5)
        add("binvox", vg.export(file_type="binvox"))
    except BaseException:  # noqa
        pass
    try:
        p = trimesh.load_path(np.array([[[0, 0], [1, 0]], [[1, 0], [1, 1]], [[1, 1], [0, 0]]], dtype=np.float64))
        add("dxf", p.export(file_type="dxf"))
        add("svg", p.export(file_type="svg"))
        # a drawing with curved entities: radii and angles are numbers a single corrupted digit can blow up
        from trimesh.path.entities import Arc, Line

        pa = trimesh.path.Path2D(
            entities=[Line([0, 1]), Arc([1, 2, 3]), Line([3, 0]), Arc([4, 5, 6], closed=True)],
            vertices=np.array([[0, 0], [2, 0], [3, 1], [2, 2], [6, 1], [7, 2], [8, 1]], dtype=np.float64),
            process=False,
        )
        add("dxf", pa.export(file_type="dxf"))
        add("svg", pa.export(file_type="svg"))
    except BaseException:  # noqa
        pass
    try:
        zbuf = io.BytesIO()
        with zipfile.ZipFile(zbuf, "w") as z:
            z.writestr("a.stl", m.export(file_type="stl"))
            z.writestr("b.off", m.export(file_type="off"))
        add("zip", zbuf.getvalue())
    except BaseException:  # noqa
        pass
    for fmt, name in (("off", "whitespace.off"), ("off", "comments.off"), ("3dxml", "blocks.3dxml"), ("xaml", "plane.xaml"), ("xyz", "points_agisoft.xyz"),
                      ("ply", "points_ascii_with_lists.ply"), ("ply", "tet.ply"), ("obj", "joined_tetrahedra.obj"), ("obj", "negative_indices.obj"),
                      ("obj", "polygonfaces.obj"), ("glb", "empty_nodes.glb"), ("stl", "unit_cube.STL"), ("zip", "ascii.stl.zip"), ("ply", "metadata.ply"),
                      ("glb", "BoxInterleaved.glb"), ("dxf", "2D/insert_r14.dxf")):
        add(fmt, _read(name))
    # hand-written documents whose tables refer to each other: a chain of DXF blocks, each INSERTing the previous one twice
    # (what is referenced may only be expanded in proportion to the input, whatever the reader does with nested references)
    for depth in (6, 18):
        add("dxf", nested_blocks_dxf(depth))
    _SEEDS = {k: v for k, v in S.items() if v}
    return _SEEDS


PATH_FORMATS = {"dxf", "svg"}
BYTE_VALUES = [0x00, 0xFF, 0x80, 0x2D, 0x20, 0x0A, 0x39, 0x7B]  # NUL, 0xFF, high bit, '-', space, newline, '9', '{'


def mutate(data, fault, other=None):
    """deterministic fault operators"""
    k = fault[0]
    n = len(data)
    if k == "none":
        return data
    if k == "raw":
        return bytes.fromhex(fault[1])
    if k == "truncate":
        return data[: fault[1] % (n + 1)]
    if k == "byte":
        i = fault[1] % max(n, 1)
        v = fault[2]
        b = bytearray(data)
        if n == 0:
            return data
        if v == "xor80":
            b[i] ^= 0x80
        elif v == "inc":
            b[i] = (b[i] + 1) % 256
        elif v == "dec":
            b[i] = (b[i] - 1) % 256
        else:
            b[i] = int(v) % 256
        return bytes(b)
    if k == "word":
        i = (fault[1] % max(n // 4, 1)) * 4
        b = bytearray(data)
        b[i : i + 4] = int(fault[2]).to_bytes(4, "little")
        return bytes(b[: max(n, i + 4)])
    if k == "delete":
        i, ln = fault[1] % max(n, 1), fault[2]
        return data[:i] + data[i + ln :]
    if k == "duplicate":
        i, ln = fault[1] % max(n, 1), fault[2]
        return data[: i + ln] + data[i : i + ln] + data[i + ln :]
    if k == "swap":
        i, j, ln = fault[1] % max(n, 1), fault[2] % max(n, 1), fault[3]
        i, j = min(i, j), max(i, j)
        if i + ln > j:
            return data
        return data[:i] + data[j : j + ln] + data[i + ln : j] + data[i : i + ln] + data[j + ln :]
    if k == "splice":
        o = other if other is not None else data
        i = fault[1] % (n + 1)
        j = fault[2] % (len(o) + 1)
        return data[:i] + o[j:]
    if k == "repeat":
        # grow the input: repeat a chunk many times (length proportional checks)
        i, ln, times = fault[1] % max(n, 1), fault[2], fault[3]
        return data[:i] + data[i : i + ln] * times + data[i:]
    if k == "zip_member":
        # the fault is applied to the j-th member of a zip container (3mf, 3dxml, zip) and the archive is rebuilt, so the
        # container itself stays valid and the loader reaches the corrupted document inside
        try:
            zin = zipfile.ZipFile(io.BytesIO(data))
            names = zin.namelist()
            if not names:
                return data
            j = fault[1] % len(names)
            out = io.BytesIO()
            with zipfile.ZipFile(out, "w", zipfile.ZIP_DEFLATED) as zout:
                for i, name in enumerate(names):
                    payload = zin.read(name)
                    if i == j:
                        payload = mutate(payload, fault[2], other)
                    zout.writestr(name, payload)
            return out.getvalue()
        except (zipfile.BadZipFile, KeyError, OSError, RuntimeError):
            return data
    if k == "glb_json":
        # the fault is applied to the JSON chunk of a GLB container and the chunk / file lengths are written again, so
        # the framing stays valid and the loader reaches the corrupted document
        import struct

        if n < 20 or data[:4] != b"glTF" or data[16:20] != b"JSON":
            return data
        jlen = struct.unpack("<I", data[12:16])[0]
        if 20 + jlen > n:
            return data
        js = mutate(data[20 : 20 + jlen], fault[1], other)
        js = js + b" " * ((4 - len(js) % 4) % 4)
        rest = data[20 + jlen :]
        return data[:8] + struct.pack("<I", 20 + len(js) + len(rest)) + struct.pack("<I", len(js)) + b"JSON" + js + rest
    if k == "frac_token":
        # the first token of the line that holds the byte at fraction f of the input is replaced
        pos = min(int(fault[1] * n), max(n - 1, 0))
        a = data.rfind(b"\n", 0, pos) + 1
        b = data.find(b"\n", pos)
        b = n if b < 0 else b
        line = data[a:b]
        parts = line.split(None, 1)
        if not parts:
            return data
        return data[:a] + str(fault[2]).encode() + (b" " + parts[1] if len(parts) > 1 else b"") + data[b:]
    if k == "frac_byte":
        pos = min(int(fault[1] * n), max(n - 1, 0))
        return mutate(data, ["byte", pos, fault[2]], other)
    if k == "multi":
        # several faults at once (e.g. two length fields of one header that police each other)
        for f in fault[1:]:
            data = mutate(data, f, other)
        return data
    if k == "small_int":
        # the j-th isolated single-digit integer token (an index into another table, a count, a flag) -> another digit
        import re

        toks = list(re.finditer(rb"(?<![\d.\-+eE])\d(?![\d.eE])", data))
        if not toks:
            return data
        mobj = toks[fault[1] % len(toks)]
        d = int(data[mobj.start() : mobj.end()])
        new = (d + fault[2]) % 10
        return data[: mobj.start()] + str(new).encode() + data[mobj.end() :]
    if k == "line_digit":
        # replace the k-th ascii digit run with a huge number (count / index fields in text formats)
        import re

        runs = list(re.finditer(rb"\d+", data))
        if not runs:
            return data
        mobj = runs[fault[1] % len(runs)]
        return data[: mobj.start()] + str(fault[2]).encode() + data[mobj.end() :]
    raise ValueError(k)


_BIG = {}


def big_seed(fmt, level):
    """a valid file of an icosphere with 20 * 4**level faces, built by the exporter of the tree under test"""
    key = (fmt, level)
    if key not in _BIG:
        import trimesh

        m = trimesh.creation.icosphere(subdivisions=level)
        kw = {"encoding": "ascii"} if fmt == "ply_ascii" else {}
        data = m.export(file_type="ply" if fmt == "ply_ascii" else fmt, **kw)
        _BIG[key] = data.encode("utf-8") if isinstance(data, str) else bytes(data)
    return _BIG[key]


def build_input(case):
    if case.get("big") is not None:
        return mutate(big_seed(case["fmt"], case["big"]), case["fault"], None)
    S = seeds()
    fmt = case["fmt"]
    pool = S.get(fmt) or [b""]
    data = pool[case["seed"] % len(pool)]
    other = None
    if case["fault"][0] == "splice":
        other = pool[(case["seed"] + 1 + case["fault"][3]) % len(pool)] if len(pool) > 1 else data
    return mutate(data, case["fault"], other)
