#!/usr/bin/env bash
# MANIFEST.setup_cmd : offline install of hypothesis into /venv if it is missing; nothing else is built.
set -u
PY=/venv/bin/python
if ! $PY -c "import hypothesis" >/dev/null 2>&1; then
  /venv/bin/pip install --no-index --find-links /opt/veriftools/wheels hypothesis || exit 1
fi
$PY -c "import hypothesis, numpy, scipy; print('setup ok: hypothesis', hypothesis.__version__)"
